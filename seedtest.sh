#!/bin/sh
# usage: seedtest.sh <patch.diff> <Cxx> [Cyy ...]  - apply a seeded change to /repo, run the quick checks, undo
P=$(readlink -f "$1"); shift
git -C /repo apply "$P" || { echo "patch does not apply"; exit 3; }
for c in "$@"; do
  /verif/check $c quick > /tmp/seedtest.$c.out 2>&1; rc=$?
  echo "== $c exit=$rc"; grep -E "VIOLATED|UNDECIDED|VIOLATION|CHECK-BROKEN" -A1 /tmp/seedtest.$c.out | cut -c1-300 | head -20
done
git -C /repo checkout -- . ; git -C /repo clean -fdq ; git -C /repo status --short
