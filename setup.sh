#!/bin/sh
# Offline setup: build the checker and warm the Go build cache so that go/packages can
# load /repo with export data of its dependencies.
set -e
VERIF=$(cd "$(dirname "$0")" && pwd)
export GOFLAGS=-mod=mod GOPROXY=off GOSUMDB=off GOTOOLCHAIN=local
unset GOWORK
mkdir -p "$VERIF/tool/bin" "$VERIF/evidence"
( cd "$VERIF/tool" && go build -o bin/tibcvet . )
( cd /repo && go build ./... ) || true
"$VERIF/tool/bin/tibcvet" warm
