#!/bin/sh
# usage: run_all.sh [quick|thorough]  - runs every claimed check, prints one line each
cd "$(dirname "$0")"
TIER=${1:-quick}
( cd tool && GOFLAGS=-mod=mod GOPROXY=off GOSUMDB=off GOTOOLCHAIN=local go build -o bin/tibcvet . ) || exit 2
IDS=$(python3 -c "import json;print(' '.join(c['property_id'] for c in json.load(open('MANIFEST.json'))['checks']))")
mkdir -p /tmp/runall
echo $IDS | tr ' ' '\n' | xargs -P 6 -I{} sh -c "./check {} $TIER > /tmp/runall/{}.out 2>&1; echo {} exit=\$? \$(tail -1 /tmp/runall/{}.out | cut -c1-160)" | sort
