package main

import (
	"fmt"
	"strings"

	"golang.org/x/tools/go/ssa"
)

func init() {
	register("C09", propMeta{
		Explanation: "Decides, on every path of Keeper.SendPacket: all writes, events and the success return are dominated by 'packet sequence == next-send counter read under the packet's own (source,dest)', by 'packet source == this chain's name', by ValidateBasic and by the existence of the client of the dest-or-relay chain; every success path writes the counter under the same (source,dest) with exactly (value read)+1 and writes CommitPacket(packet) under (source,dest,sequence), and emits the send_packet event built from the packet's getters; the counter is written only from SendPacket/InitGenesis; both transfer apps build the packet with the counter read for (this chain's name, destination) and with that same source/destination; from the first token mutation to the Msg handler's return no error is dropped in SendNftTransfer/SendMtTransfer/NftTransfer/MtTransfer/SendPacket, so a failing send is reverted by the SDK. Also (no reuse across export/import): the send counters and pending commitments are exported by the getter that reads their own key class and restored by the setter that writes it, record components under the parameter of the same role, every record unconditionally. NOT decided: interleavings over histories (gap-freeness follows from the per-call conditions only by induction), SDK rollback itself.",
		Assumptions: []string{"cosmos-sdk store branching discards writes of failed messages"},
		Trusted:     commonTrusted,
	}, ruleC09)
}

// counterRead recognises a call that reads the class with the given (src,dst) holes.
func (k *K) readsKeyCall(fi *FnInfo, t *Term, class string, holes []string) bool {
	if t == nil {
		return false
	}
	// direct store.Get
	if k.isKeyRead(t, class, holes) {
		return true
	}
	if t.Op == "call" && len(t.Args) == 1 && strings.HasSuffix(t.Name, "types.BigEndianToUint64") {
		return k.isKeyRead(t.Args[0], class, holes)
	}
	// a (not inlined) getter call: find the SSA call with this term and evaluate its key shapes
	for _, b := range fi.Fn.Blocks {
		for _, in := range b.Instrs {
			c, ok := in.(*ssa.Call)
			if !ok || fi.T.Of(c).String() != t.String() {
				continue
			}
			if len(k.cg.CallWrites(c)) > 0 {
				return false
			}
			want := wantShape(class, holes)
			sh := k.KeyShapesAt(fi, c, class, "Get", "Has")
			return len(sh) == 1 && sh[0] == want
		}
	}
	return false
}

func wantShape(class string, holes []string) string {
	switch len(holes) {
	case 2:
		return fmt.Sprintf("%q<str %s>%q<str %s>", class+"/", holes[0], "/", holes[1])
	case 3:
		return fmt.Sprintf("%q<str %s>%q<str %s>%q<dec %s>", class+"/", holes[0], "/", holes[1], "/sequences/", holes[2])
	}
	return "?"
}

func ruleC09(w *World, r *Report) {
	k := newK(w, r)
	fi := k.method(pPacketKeeper, "Keeper", "SendPacket")
	if fi == nil {
		return
	}
	fn := fnShort(fi)
	pkt := paramByType(fi.Fn, "exported.PacketI")
	if r.BrokenIf(pkt == nil, "SendPacket: packet parameter not identified") {
		return
	}
	pk := ifacePkt(pkt)
	sites := append(k.EffectSites(fi), returnSites(fi, "")...)

	// the counter value the guard compares with
	var counter *Term
	seqEq := func(f Fact) bool {
		if f.Op != "==" {
			return false
		}
		for _, pr := range [][2]*Term{{f.L, f.R}, {f.R, f.L}} {
			if pr[0].String() == pk.seq && k.readsKeyCall(fi, pr[1], "nextSequenceSend", []string{pk.src, pk.dst}) {
				counter = pr[1]
				return true
			}
		}
		return false
	}
	srcEq := func(f Fact) bool {
		if f.Op != "==" {
			return false
		}
		return (f.L.String() == pk.src && k.isChainName(f.R)) || (f.R.String() == pk.src && k.isChainName(f.L))
	}
	clientFound := func(f Fact) bool {
		// GetClientState(ctx, X)#1 with X in {dest, relay}
		if f.Op != "true" || f.L.Op != "extract" || f.L.Name != "1" {
			return false
		}
		c := f.L.Args[0]
		if c.Op != "invoke" || c.Name != "GetClientState" || len(c.Args) != 3 {
			return false
		}
		alts := []*Term{c.Args[2]}
		if c.Args[2].Op == "phi" {
			alts = c.Args[2].Args
		}
		for _, a := range alts {
			if a.String() != pk.dst && a.String() != pk.relay {
				return false
			}
		}
		return true
	}
	vbs := callsNamed(fi, "ValidateBasic")
	for _, s := range sites {
		b := s.Instr.Block()
		r.Check(fi.HasFact(b, seqEq), "C09.seq.eq/"+s.What, "GUARD-DOM", fn, fi.InstrPos(s.Instr),
			s.What+" dominated by packet.GetSequence() == nextSequenceSend(src,dst)",
			s.What+" reachable without the guard 'packet sequence == next send sequence of (packet source, packet dest)'")
		r.Check(fi.HasFact(b, srcEq), "C09.src/"+s.What, "GUARD-DOM", fn, fi.InstrPos(s.Instr),
			s.What+" dominated by packet.GetSourceChain() == chain name", s.What+" reachable without the guard 'packet source chain == this chain'")
		r.Check(fi.HasFact(b, clientFound), "C09.client/"+s.What, "GUARD-DOM", fn, fi.InstrPos(s.Instr),
			s.What+" dominated by 'client of dest/relay chain exists'", s.What+" reachable although no client for the destination (or relay) chain was found")
		okVB := false
		for _, c := range vbs {
			if fi.ErrNilDominates(c, b) {
				okVB = true
			}
		}
		r.Check(okVB, "C09.basic/"+s.What, "GUARD-DOM", fn, fi.InstrPos(s.Instr), s.What+" dominated by packet.ValidateBasic() == nil", s.What+" reachable without packet.ValidateBasic()")
	}

	// counter++ and commitment on every success path
	setSeq := k.callsWithEffect(fi, "Set:nextSequenceSend")
	setCom := k.callsWithEffect(fi, "Set:commitments")
	mk := func(calls []ssa.CallInstruction) func(ssa.Instruction) bool {
		return func(in ssa.Instruction) bool {
			for _, c := range calls {
				if ssa.Instruction(c) == in {
					return true
				}
			}
			return false
		}
	}
	for _, s := range returnSites(fi, "") {
		p1 := fi.PathAvoiding(s.Instr, mk(setSeq))
		r.Check(len(setSeq) > 0 && p1 == nil, "C09.seq.inc/pass."+s.What, "MUST-PASS", fn, fi.InstrPos(s.Instr), "success passes the counter write", "success reachable without writing the send counter: "+fi.DescribePath(p1))
		p2 := fi.PathAvoiding(s.Instr, mk(setCom))
		r.Check(len(setCom) > 0 && p2 == nil, "C09.commit/pass."+s.What, "MUST-PASS", fn, fi.InstrPos(s.Instr), "success passes the commitment write", "success reachable without writing the packet commitment: "+fi.DescribePath(p2))
	}
	for _, s := range setSeq {
		sh := k.KeyShapesAt(fi, s, "nextSequenceSend", "Set")
		want := wantShape("nextSequenceSend", []string{pk.src, pk.dst})
		r.Check(len(sh) == 1 && sh[0] == want, "C09.seq.inc/key", "KEY-SHAPE", fn, fi.InstrPos(s), "counter written under "+want, fmt.Sprintf("counter written under %v, expected %s", sh, want))
		a := CallArgs(s.Common())
		if len(a) >= 4 && counter != nil {
			v := fi.T.Of(a[3])
			ok := v.Op == "bin" && v.Name == "+" && ((v.Args[0].String() == "const(1)" && v.Args[1].String() == counter.String()) || (v.Args[1].String() == "const(1)" && v.Args[0].String() == counter.String()))
			r.Check(ok, "C09.seq.inc/value", "BIND", fn, fi.InstrPos(s), "counter := (value read) + 1", "new counter value is "+clip(v.String())+", expected (value read)+1 with value read = "+clip(counter.String()))
		} else {
			r.Undecided("C09.seq.inc/value", "BIND", fn, fi.InstrPos(s), "cannot identify the counter value written")
		}
	}
	commit := w.TermOfCall(w.Func(pPacketTypes, "CommitPacket"), pkt).String()
	for _, s := range setCom {
		sh := k.KeyShapesAt(fi, s, "commitments", "Set")
		want := wantShape("commitments", []string{pk.src, pk.dst, pk.seq})
		r.Check(len(sh) == 1 && sh[0] == want, "C09.commit/key", "KEY-SHAPE", fn, fi.InstrPos(s), "commitment written under "+want, fmt.Sprintf("commitment written under %v, expected %s", sh, want))
		a := termsOf(fi, CallArgs(s.Common()))
		if len(a) >= 5 {
			r.Check(a[4] == commit, "C09.commit/value", "BIND", fn, fi.InstrPos(s), "commitment = CommitPacket(packet)", "commitment value is "+clip(a[4])+", expected "+commit)
		}
	}

	// event
	// the emission may live in the function itself or in a same-package helper it calls
	emits := k.deepCalls(fi, func(c *ssa.CallCommon) bool { return isEmit(c) }, 2)
	good := 0
	for _, dc := range emits {
		args := dc.Call.Common().Args
		if len(args) == 0 {
			continue
		}
		e := dc.Outer
		t := dc.Fi.T.Of(args[len(args)-1])
		if t.Contains(`const("send_packet")`) {
			missing := []string{}
			for name, g := range map[string]string{"data": pk.data, "sequence": pk.seq, "port": pk.port, "source": pk.src, "dest": pk.dst, "relay": pk.relay} {
				if !t.Contains(g) {
					missing = append(missing, name)
				}
			}
			r.Check(len(missing) == 0, "C09.event/attrs", "BIND", fn, fi.InstrPos(e), "send_packet event carries data, sequence, port, source, dest, relay of the packet", "send_packet event lacks packet field(s): "+strings.Join(missing, ","))
			good++
			for _, s := range returnSites(fi, "") {
				p := fi.PathAvoiding(s.Instr, func(in ssa.Instruction) bool { return in == e })
				r.Check(p == nil, "C09.event/pass."+s.What, "MUST-PASS", fn, fi.InstrPos(s.Instr), "success passes the send_packet event", "success reachable without announcing the packet: "+fi.DescribePath(p))
			}
		}
	}
	if good == 0 {
		r.Violate("C09.event/none", "MUST-PASS", fn, w.Pos(fi.Fn.Pos()), "SendPacket emits no send_packet event")
	}

	k.whoMayReach("C09.seq.owner", "Set:nextSequenceSend", []*ssa.Function{fi.Fn, w.Func(pPacket, "InitGenesis")})

	// apps
	for _, app := range []struct{ pkg, send, msg string }{{pNFTKeeper, "SendNftTransfer", "NftTransfer"}, {pMTKeeper, "SendMtTransfer", "MtTransfer"}} {
		sf := k.method(app.pkg, "Keeper", app.send)
		if sf == nil {
			continue
		}
		sends := callsNamed(sf, "SendPacket")
		if len(sends) == 0 {
			r.Violate("C09.app.seq/"+app.send, "BIND", fnShort(sf), w.Pos(sf.Fn.Pos()), "no SendPacket call")
		}
		for _, c := range sends {
			a := CallArgs(&c.Call)
			if len(a) < 2 {
				continue
			}
			p := sf.T.Of(a[1])
			get := func(name string) *Term {
				if p.Op == "lit" {
					for _, kv := range p.Args {
						if kv.Name == name {
							return kv.Args[0]
						}
					}
				}
				return nil
			}
			seq, src, dst := get("Sequence"), get("SourceChain"), get("DestinationChain")
			if seq == nil || src == nil || dst == nil {
				r.Undecided("C09.app.seq/"+app.send, "BIND", fnShort(sf), sf.InstrPos(c), "packet passed to SendPacket is not a recognisable Packet literal: "+clip(p.String()))
				continue
			}
			okSeq := seq.Op == "invoke" && seq.Name == "GetNextSequenceSend" && len(seq.Args) == 4 && seq.Args[2].String() == src.String() && seq.Args[3].String() == dst.String()
			r.Check(okSeq, "C09.app.seq/"+app.send+".counter", "BIND", fnShort(sf), sf.InstrPos(c),
				"packet sequence = GetNextSequenceSend(ctx, packet source, packet dest)", "packet sequence is "+clip(seq.String())+" for source "+src.String()+" dest "+dst.String())
			r.Check(k.isChainName(src), "C09.app.seq/"+app.send+".source", "BIND", fnShort(sf), sf.InstrPos(c), "packet source = this chain's name", "packet source is "+src.String())
		}
		k.errPropRule("C09.errprop", sf, nil)
		if mf := k.method(app.pkg, "Keeper", app.msg); mf != nil {
			k.errPropRule("C09.errprop", mf, nil)
		}
	}
	k.errPropRule("C09.errprop", fi, nil)
	for _, app := range apps {
		k.appSendRule("C09.app.own", app)
	}
	// no sequence reuse across an export/import: the send counters and the pending commitments
	// are exported from and restored into their own key class, unpermuted (shared with C16)
	k.genesisFieldRule("C09.genesis")
	r.MinInstances("C09.", 45)
}
