package main

import (
	"fmt"
	"sort"
	"strings"

	"golang.org/x/tools/go/ssa"
)

func init() {
	register("C04", propMeta{
		Explanation: "Decides who can mint, burn, lock and unlock NFTs and under which verified event: the NFT module's mutators are called only from SendNftTransfer, Keeper.OnRecvPacket and refundPacketToken, which are reachable only from the NftTransfer message, AppModule.OnRecvPacket and AppModule.OnAcknowledgementPacket, and those callbacks only from the core handlers' router dispatch; on send exactly one of {lock into the module account, burn} of the caller's own (class,id) debiting the sender parameter precedes SendPacket, selected by the very boolean written into the packet; a native class shaped like a voucher path is rejected before the direction decision; on receive, minting (voucher class = hash of the path extended by the packet's own source/dest and data.Class, id = data.Id, to the module account, then to the receiver decoded from data.Receiver) happens exactly under data.AwayFromOrigin and the escrow release (class parsed back from data.Class, id = data.Id, module account -> receiver) exactly under its negation, both only after data.ValidateBasic and receiver decoding succeeded; refund: unlock to the decoded data.Sender under data.AwayFromOrigin, re-mint + hand over under its negation, only for an error acknowledgement; escrow releases occur nowhere else; the acknowledgement callback runs only on the packet's source chain. Also: the class-trace codec is lossless (GetFullClassPath = Path + delimiter + BaseClass, ParseClassTrace = whole string / Split-Join / LastIndex form with the same delimiter), so two class paths never share a voucher class; the path helpers insert exactly one element in front of the base class on the way out and remove exactly that element on the way back, keeping every other hop (compared as element sequences); Keeper.AcknowledgePacket acts only while the packet's own commitment matches and deletes exactly that commitment on every success path (a refund cannot be replayed). NOT decided: uniqueness of ownership across chains, id collisions inside the NFT module, multi-hop histories.",
		Assumptions: []string{"the NFT module enforces ownership in TransferOwner/BurnNFT for the owner argument it is given"},
		Trusted:     commonTrusted,
	}, func(w *World, r *Report) { ruleTransferApp(w, r, "C04", apps[0]) })
	register("C05", propMeta{
		Explanation: "Decides the structural conditions of conservation for multi-token transfers: the amount parameter of SendMtTransfer is the very value locked/burned and the value written into the packet; on receive and refund every IssueMT/MintMT/TransferOwner takes data.Amount, data.Id and the voucher class derived from the packet, under the same branch table as C04 (mint <-> AwayFromOrigin, unlock <-> its negation, refund mirrors send), after ValidateBasic (which rejects amount 0) and address decoding; no arithmetic or narrowing conversion is applied to an amount anywhere in the mt-transfer module (wrap-around cannot be introduced here); the pinned MT module guards balance and supply increases against uint64 overflow before writing; every error of an MtKeeper call is propagated (one reasoned exception: IssueDenom for a voucher class, whose failure surfaces in the following IssueMT). Also: class-trace codec lossless and acknowledgement processed at most once, as for C04. NOT decided: the conservation sum itself over histories, partial returns, several holders.",
		Assumptions: []string{"the MT module debits exactly the amount it is given"},
		Trusted:     commonTrusted,
	}, func(w *World, r *Report) { ruleTransferApp(w, r, "C05", apps[1]) })
	register("C06", propMeta{
		Explanation: "Decides: refund credits the account decoded from data.Sender with data.Id (and data.Amount) of the class parsed from data.Class, the fields the send side filled from its own sender, id, amount and full class path; refund undoes lock with unlock and burn with re-mint, selected by data.AwayFromOrigin (the flag the sender wrote), for NFT and MT; the path helpers of the two applications (determineAwayFromOrigin, getAwayNewClassPath, getBackNewClassPath, concatClassPath, ParseClassTrace, IBCClass, GetFullClassPath) are identical up to the prefix constant; the sender-side direction test and the receiver-side path extension use the same 'is a voucher path' predicate; native NFT classes shaped like a path are rejected on send (MT native ids are module-generated hex hashes). Also: class-trace codec lossless; acknowledgement processed at most once (ack-once obligations on Keeper.AcknowledgePacket); on receive everything that can fail (receiver decoding) precedes the first token operation, so a receive that ends in an error acknowledgement leaves no voucher behind. NOT decided: that path construction and stripping are inverse for all strings and routes, that every intermediate voucher is gone (behavioural).",
		Assumptions: []string{"token modules behave as specified"},
		Trusted:     commonTrusted,
	}, ruleC06)
	register("C19", propMeta{
		Explanation: "Decides error discipline: in all Msg handlers, both application callbacks and the keeper functions below them no error of a keeper, light-client or token-module call is discarded or overtaken by a success return, except the two sanctioned conversions (ErrUnauthorized -> written error acknowledgement in msgServer.RecvPacket; application error -> error acknowledgement in AppModule.OnRecvPacket) and one reasoned discard; AppModule.OnRecvPacket returns an error acknowledgement (never a result acknowledgement) whenever the keeper callback failed; in the keeper callbacks all input validation (ValidateBasic, address decoding, class-prefix check) dominates the first token mutation, so an invalid packet is answered with an error acknowledgement before any token state is touched; on the ErrUnauthorized path the packet layer writes exactly receipt, acknowledgement and maxAck; nothing reachable from a handler writes package-level state (shared with C20). No code reachable from a message handler or application callback branches the store (CacheContext/CacheMultiStore): what a successful path commits is everything its steps wrote; no reachable method writes memory that hangs off a Keeper / msgServer / AppModule object (state outside the store survives a rolled-back message). NOT decided: that a failing message leaves the store unchanged (SDK branching, trusted); token state after an error acknowledgement caused by a token-module failure in the middle of a multi-step mint (needs a cached context - reported as INFO, not armed).",
		Assumptions: []string{"cosmos-sdk store branching discards writes of failed messages"},
		Trusted:     commonTrusted,
	}, ruleC19)
}

func appAmt(app appDesc) int {
	if app.hasAmount {
		return 1
	}
	return 0
}

// voucher class terms
func (k *K) parseIBCClass(app appDesc, classPath *Term) string {
	pt := k.w.TermOfCall(k.w.Func(app.typesPkg, "ParseClassTrace"), classPath)
	return k.w.TermOfCall(k.w.Method(app.typesPkg, "ClassTrace", "IBCClass"), pt).String()
}

// recvRule checks Keeper.OnRecvPacket of one transfer application.
func (k *K) recvRule(id string, app appDesc) {
	fi := k.method(app.keeperPkg, "Keeper", "OnRecvPacket")
	if fi == nil {
		return
	}
	fn := fnShort(fi)
	pkt, data := P(2), P(3)
	away := FieldT(data, "AwayFromOrigin").String()
	dID, dAmt, dClass := FieldT(data, "Id").String(), FieldT(data, "Amount").String(), FieldT(data, "Class")
	tc := k.tokenCallsDeep(fi, app)
	var muts []DeepCall
	for name, cs := range tc {
		if tokenMutators[name] {
			muts = append(muts, cs...)
		}
	}
	sort.Slice(muts, func(i, j int) bool { return muts[i].Call.Pos() < muts[j].Call.Pos() })
	if len(muts) < 3 {
		k.r.Violate(id+".recv/"+app.name+".ops", "MUST-PASS", fn, k.w.Pos(fi.Fn.Pos()), fmt.Sprintf("only %d token mutations found in OnRecvPacket", len(muts)))
		return
	}
	// validation dominates every mutation
	vb := callsNamed(fi, "ValidateBasic")
	var dec []*ssa.Call
	recvT := ""
	for _, b := range fi.Fn.Blocks {
		for _, in := range b.Instrs {
			if c, ok := in.(*ssa.Call); ok {
				if f := c.Call.StaticCallee(); f != nil && f.Name() == "AccAddressFromBech32" && fi.T.Of(c.Call.Args[0]).String() == FieldT(data, "Receiver").String() {
					dec = append(dec, c)
					recvT = fi.T.Of(c).String() + "#0"
				}
			}
		}
	}
	for _, m := range muts {
		okV, okD := false, false
		for _, c := range vb {
			if k.dcHasAtom(fi, m, atomEQ(fi.ErrTermOfCall(c), "nil")) && fi.T.Of(CallRecv(&c.Call)).String() == data.String() {
				okV = true
			}
		}
		for _, c := range dec {
			if k.dcHasAtom(fi, m, atomEQ(fi.ErrTermOfCall(c), "nil")) {
				okD = true
			}
		}
		name := m.Call.Common().Method.Name()
		k.r.Check(okV, id+".recv/"+app.name+".validate."+name, "GUARD-DOM", fn, k.dcPos(fi, m), name+" dominated by data.ValidateBasic() == nil", name+" can run before/without data.ValidateBasic() succeeding")
		k.r.Check(okD, id+".recv/"+app.name+".receiver."+name, "GUARD-DOM", fn, k.dcPos(fi, m), name+" dominated by a successfully decoded data.Receiver", name+" can run before the receiver address has been decoded successfully: a packet with an undecodable receiver would be answered with an error acknowledgement after token state was already changed")
	}
	// expected classes
	newPath := k.w.TermOfCall(k.w.Method(app.keeperPkg, "Keeper", "getAwayNewClassPath"), P(0), FieldT(pkt, "SourceChain"), FieldT(pkt, "DestinationChain"), dClass)
	voucherAway := k.w.TermOfCall(k.w.Method(app.keeperPkg, "Keeper", "getIBCClassFromClassPath"), P(0), P(1), newPath).String()
	backPath := k.w.TermOfCall(k.w.Method(app.keeperPkg, "Keeper", "getBackNewClassPath"), P(0), dClass)
	voucherBack := k.parseIBCClass(app, backPath)
	isMod := func(s string) bool { return strings.Contains(s, "GetModuleAddress") }
	for _, m := range muts {
		name := m.Call.Common().Method.Name()
		a := m.Args()
		site := k.dcPos(fi, m)
		inAway, inBack := k.dcHasAtom(fi, m, away), k.dcHasAtom(fi, m, "!"+away)
		n := len(a)
		switch name {
		case "IssueDenom":
			k.r.Check(inAway && a[1] == voucherAway, id+".table/"+app.name+".recv.issue", "BIND", fn, site, "voucher class issued only for an incoming away-from-origin packet, for the class derived from the packet", "IssueDenom for "+clip(a[1])+" (away="+fmt.Sprint(inAway)+")")
		case "MintNFT", "MintMT", "IssueMT":
			okArgs := a[1] == voucherAway && a[2] == dID && isMod(a[n-1])
			if app.hasAmount {
				okArgs = okArgs && a[3] == dAmt
			}
			k.r.Check(inAway && !inBack, id+".table/"+app.name+".recv.mint.branch", "GUARD-DOM", fn, site, name+" happens exactly under data.AwayFromOrigin", name+" is not guarded by data.AwayFromOrigin == true: vouchers may be created for a packet that says the asset is returning")
			k.r.Check(okArgs, id+".table/"+app.name+".recv.mint.args", "BIND", fn, site, name+" mints (voucher class of the packet's path, data.Id"+map[bool]string{true: ", data.Amount", false: ""}[app.hasAmount]+") to the module account", name+" arguments are ("+clip(strings.Join(a[1:], ", "))+"); expected class "+clip(voucherAway)+", id "+dID+map[bool]string{true: ", amount " + dAmt, false: ""}[app.hasAmount]+", recipient = module account")
		case "TransferOwner":
			src, dst := a[n-2], a[n-1]
			okCommon := a[2] == dID && isMod(src) && dst == recvT
			if app.hasAmount {
				okCommon = okCommon && a[3] == dAmt
			}
			switch {
			case inAway:
				k.r.Check(okCommon && a[1] == voucherAway, id+".table/"+app.name+".recv.handover", "BIND", fn, site, "freshly minted voucher handed from the module account to the decoded receiver", "hand-over arguments are ("+clip(strings.Join(a[1:], ", "))+")")
			case inBack:
				k.r.Check(okCommon && a[1] == voucherBack, id+".table/"+app.name+".recv.unlock", "BIND", fn, site, "escrow release of (class parsed back from data.Class, data.Id) from the module account to the decoded receiver", "escrow release arguments are ("+clip(strings.Join(a[1:], ", "))+"); expected class "+clip(voucherBack)+", id "+dID+", module account -> "+recvT)
				prefixOK := k.dcHas(fi, m, func(f Fact) bool {
					return f.Op == "true" && f.L.Op == "call" && f.L.Name == "strings.HasPrefix" && f.L.Args[0].String() == dClass.String()
				})
				k.r.Check(prefixOK, id+".table/"+app.name+".recv.unlock.prefix", "GUARD-DOM", fn, site, "escrow release only for a class carrying the voucher path prefix", "escrow release is not guarded by the class-path prefix check on data.Class")
			default:
				k.r.Violate(id+".table/"+app.name+".recv.transfer.branch", "GUARD-DOM", fn, site, "TransferOwner on receive is guarded neither by data.AwayFromOrigin nor by its negation")
			}
		default:
			k.r.Violate(id+".table/"+app.name+".recv.unexpected."+name, "WHO-MAY-CALL", fn, site, "unexpected token mutation "+name+" on receive")
		}
	}
	// every success path hands the asset to the receiver
	var hand []ssa.Instruction
	for _, c := range tc["TransferOwner"] {
		a := c.Args()
		if a[len(a)-1] == recvT {
			hand = append(hand, c.Outer)
		}
	}
	for _, st := range returnSites(fi, "") {
		path := fi.PathAvoiding(st.Instr, func(x ssa.Instruction) bool {
			for _, c := range hand {
				if c == x {
					return true
				}
			}
			return false
		})
		k.r.Check(path == nil && len(hand) > 0, id+".recv/"+app.name+".delivers."+st.What, "MUST-PASS", fn, fi.InstrPos(st.Instr), "success passes a transfer to the receiver", "OnRecvPacket can succeed without transferring anything to the receiver: "+fi.DescribePath(path))
	}
}

// refundRule checks refundPacketToken / OnAcknowledgementPacket of one application.
func (k *K) refundRule(id string, app appDesc) {
	fi := k.method(app.keeperPkg, "Keeper", "refundPacketToken")
	if fi == nil {
		return
	}
	fn := fnShort(fi)
	data := P(2)
	away := FieldT(data, "AwayFromOrigin").String()
	dID, dAmt := FieldT(data, "Id").String(), FieldT(data, "Amount").String()
	voucher := k.parseIBCClass(app, FieldT(data, "Class"))
	senderT := ""
	var dec []*ssa.Call
	for _, b := range fi.Fn.Blocks {
		for _, in := range b.Instrs {
			if c, ok := in.(*ssa.Call); ok {
				if f := c.Call.StaticCallee(); f != nil && f.Name() == "AccAddressFromBech32" && fi.T.Of(c.Call.Args[0]).String() == FieldT(data, "Sender").String() {
					dec = append(dec, c)
					senderT = fi.T.Of(c).String() + "#0"
				}
			}
		}
	}
	tc := k.tokenCallsDeep(fi, app)
	isMod := func(s string) bool { return strings.Contains(s, "GetModuleAddress") }
	nUnlock, nMint, nHand, nShared := 0, 0, 0, 0
	var mintSites, creditSites []ssa.Instruction
	for name, cs := range tc {
		if !tokenMutators[name] {
			continue
		}
		for _, m := range cs {
			a := m.Args()
			n := len(a)
			site := k.dcPos(fi, m)
			inAway, inBack := k.dcHasAtom(fi, m, away), k.dcHasAtom(fi, m, "!"+away)
			okD := false
			for _, c := range dec {
				if k.dcHasAtom(fi, m, atomEQ(fi.ErrTermOfCall(c), "nil")) {
					okD = true
				}
			}
			k.r.Check(okD, id+".refund.bind/"+app.name+".sender."+name, "GUARD-DOM", fn, site, name+" dominated by a successfully decoded data.Sender", name+" runs without a successfully decoded data.Sender")
			switch name {
			case "TransferOwner":
				okArgs := a[1] == voucher && a[2] == dID && isMod(a[n-2]) && a[n-1] == senderT
				if app.hasAmount {
					okArgs = okArgs && a[3] == dAmt
				}
				k.r.Check(okArgs, id+".refund.bind/"+app.name+".credit", "BIND", fn, site, "refund credits decode(data.Sender) with (class of data.Class, data.Id"+map[bool]string{true: ", data.Amount", false: ""}[app.hasAmount]+") from the module account", "refund transfer arguments are ("+clip(strings.Join(a[1:], ", "))+"); expected class "+clip(voucher)+", id "+dID+", module account -> "+senderT)
				creditSites = append(creditSites, m.Outer)
				if inAway {
					nUnlock++
				} else if inBack {
					nHand++
				} else {
					nShared++ // one transfer shared by both directions (re-mint first when the asset was burned)
				}
			case "MintNFT", "MintMT":
				okArgs := a[1] == voucher && a[2] == dID && isMod(a[n-1])
				if app.hasAmount {
					okArgs = okArgs && a[3] == dAmt
				}
				k.r.Check(okArgs, id+".refund.bind/"+app.name+".remint", "BIND", fn, site, "re-mint of (class of data.Class, data.Id) to the module account", "re-mint arguments are ("+clip(strings.Join(a[1:], ", "))+")")
				k.r.Check(inBack && !inAway, id+".refund.mirror/"+app.name+".remint.branch", "GUARD-DOM", fn, site, "re-mint happens exactly under !data.AwayFromOrigin (undoes the burn)", "re-mint on refund is not guarded by data.AwayFromOrigin == false: a refund of a locked (not burned) asset would create new units while the locked ones stay in escrow")
				nMint++
				mintSites = append(mintSites, m.Outer)
			default:
				k.r.Violate(id+".refund.mirror/"+app.name+".unexpected."+name, "WHO-MAY-CALL", fn, site, "unexpected token mutation "+name+" in refund")
			}
		}
	}
	// branch table: refund(away) = unlock, refund(!away) = re-mint + hand over. Either two
	// branch-local transfers or one transfer shared by both directions.
	tableOK := nMint == 1 && ((nUnlock == 1 && nHand == 1 && nShared == 0) || (nShared == 1 && nUnlock == 0 && nHand == 0))
	k.r.Check(tableOK, id+".refund.mirror/"+app.name+".table", "SIBLING", fn, k.w.Pos(fi.Fn.Pos()),
		"refund(away)=unlock, refund(!away)=re-mint+hand over", fmt.Sprintf("refund branch table has %d unlocks under away, %d re-mints, %d hand-overs under !away and %d direction-independent transfers; expected 1/1/1/0 or 0/1/0/1", nUnlock, nMint, nHand, nShared))
	// every success path credits the sender; when the asset was burned (!away) it passes the re-mint first
	for _, st := range returnSites(fi, "") {
		in := func(set []ssa.Instruction) func(ssa.Instruction) bool {
			return func(x ssa.Instruction) bool {
				for _, s := range set {
					if s == x {
						return true
					}
				}
				return false
			}
		}
		p1 := fi.PathAvoiding(st.Instr, in(creditSites))
		k.r.Check(p1 == nil && len(creditSites) > 0, id+".refund.mirror/"+app.name+".credits."+st.What, "MUST-PASS", fn, fi.InstrPos(st.Instr), "every successful refund credits the sender", "refund can succeed without transferring the asset back to the sender: "+fi.DescribePath(p1))
		p2 := fi.PathAvoidingX(st.Instr, in(mintSites), func(f Fact) bool { return f.Atom == away })
		k.r.Check(p2 == nil, id+".refund.mirror/"+app.name+".remint."+st.What, "MUST-PASS", fn, fi.InstrPos(st.Instr), "a refund of a burned asset (!AwayFromOrigin) passes the re-mint", "a refund with AwayFromOrigin=false can succeed without re-minting the burned asset: "+fi.DescribePath(p2))
	}

	// only for error acknowledgements
	if fk := k.method(app.keeperPkg, "Keeper", "OnAcknowledgementPacket"); fk != nil {
		calls := callsNamed(fk, "refundPacketToken")
		if len(calls) == 0 {
			k.r.Violate(id+".refund.err/"+app.name, "GUARD-DOM", fnShort(fk), k.w.Pos(fk.Fn.Pos()), "OnAcknowledgementPacket never refunds")
		}
		for _, c := range calls {
			ok := fk.HasFact(c.Block(), func(f Fact) bool {
				return f.Op == "true" && strings.Contains(f.L.String(), "assert:*types.Acknowledgement_Error(") && strings.Contains(f.L.String(), ".Response")
			})
			k.r.Check(ok, id+".refund.err/"+app.name, "GUARD-DOM", fnShort(fk), fk.InstrPos(c), "refund only when ack.Response is an Acknowledgement_Error", "refundPacketToken is reachable for an acknowledgement that is not an error acknowledgement")
			a := termsOf(fk, CallArgs(&c.Call))
			k.r.Check(len(a) >= 2 && a[1] == P(2).String(), id+".refund.err/"+app.name+".data", "BIND", fnShort(fk), fk.InstrPos(c), "refund uses the packet data it was given", "refund uses "+clip(strings.Join(a, ",")))
		}
	}
	// the module callback decodes packet data and ack from its own arguments
	if fm := k.method(app.modPkg, "AppModule", "OnAcknowledgementPacket"); fm != nil {
		for _, c := range callsNamed(fm, "OnAcknowledgementPacket") {
			a := termsOf(fm, CallArgs(&c.Call))
			if len(a) >= 3 {
				k.r.Check(strings.Contains(a[1], "Unmarshal(") && strings.Contains(a[1], "$2.Data"), id+".refund.bind/"+app.name+".module.data", "BIND", fnShort(fm), fm.InstrPos(c), "packet data decoded from packet.GetData()", "packet data passed to the keeper is "+clip(a[1]))
				k.r.Check(strings.Contains(a[2], "Acknowledgement).Unmarshal(") && strings.Contains(a[2], "$3"), id+".refund.bind/"+app.name+".module.ack", "BIND", fnShort(fm), fm.InstrPos(c), "acknowledgement decoded from the acknowledgement bytes", "acknowledgement passed to the keeper is "+clip(a[2]))
			}
		}
	}
}

// packetDataRule: the packet built on send carries the caller's own values.
func (k *K) packetDataRule(id string, app appDesc) {
	fi := k.method(app.keeperPkg, "Keeper", app.send)
	if fi == nil {
		return
	}
	sp := sendParamsOf(fi, app)
	if sp == nil {
		return
	}
	fn := fnShort(fi)
	for _, s := range callsNamed(fi, "SendPacket") {
		p := fi.T.Of(CallArgs(&s.Call)[1])
		fields := map[string]string{}
		p.Walk(func(x *Term) {
			if x.Op == "kv" {
				if _, dup := fields[x.Name]; !dup {
					fields[x.Name] = x.Args[0].String()
				}
			}
		})
		site := fi.InstrPos(s)
		k.r.Check(fields["Id"] == sp.id.String(), id+".packet/"+app.name+".id", "BIND", fn, site, "packet id = id parameter", "packet id is "+clip(fields["Id"]))
		k.r.Check(strings.Contains(fields["Sender"], sp.sender.String()), id+".packet/"+app.name+".sender", "BIND", fn, site, "packet sender = sender parameter", "packet sender is "+clip(fields["Sender"]))
		k.r.Check(strings.Contains(fields["Class"], sp.class.String()), id+".packet/"+app.name+".class", "BIND", fn, site, "packet class derives from the class parameter (or its stored trace)", "packet class is "+clip(fields["Class"]))
		if app.hasAmount && sp.amount != nil {
			k.r.Check(fields["Amount"] == sp.amount.String(), id+".packet/"+app.name+".amount", "BIND", fn, site, "packet amount = amount parameter", "packet amount is "+clip(fields["Amount"])+", expected the amount parameter that was locked/burned")
		}
	}
}

// whoMayMutate: token mutators are called only from the three keeper functions, which are
// reachable only through the message handler and the two module callbacks.
func (k *K) whoMayMutate(id string, app appDesc) {
	allowedHolders := map[string]bool{app.send: true, "OnRecvPacket": true, "refundPacketToken": true}
	entry := map[string]bool{
		"(" + shortPath(app.keeperPkg) + ".Keeper)." + app.msg:              true,
		"(" + shortPath(app.modPkg) + ".AppModule).OnRecvPacket":            true,
		"(" + shortPath(app.modPkg) + ".AppModule).OnAcknowledgementPacket": true,
	}
	n := 0
	for _, fn := range k.w.Funcs {
		if !k.w.IsProd(fn) || !strings.HasPrefix(fn.Pkg.Pkg.Path(), strings.TrimSuffix(app.keeperPkg, "/keeper")) {
			continue
		}
		fi := k.w.FI(fn)
		has := false
		for name := range tokenCalls(fi, app) {
			if tokenMutators[name] {
				has = true
			}
		}
		if !has {
			continue
		}
		n++
		_ = allowedHolders // the holder may be a helper of the sanctioned functions: what matters is from where it can be reached
		// roots
		seen := map[*ssa.Function]bool{fn: true}
		stack := []*ssa.Function{fn}
		var bad []string
		for len(stack) > 0 {
			f := stack[len(stack)-1]
			stack = stack[:len(stack)-1]
			if entry[funcName(f)] {
				continue
			}
			callers := 0
			for c := range k.cg.Callers[f] {
				if !k.w.IsProd(c) {
					continue
				}
				callers++
				if !seen[c] {
					seen[c] = true
					stack = append(stack, c)
				}
			}
			if callers == 0 && f != fn {
				bad = append(bad, funcName(f))
			}
			if callers == 0 && f == fn {
				bad = append(bad, funcName(f)+" (exported, no caller)")
			}
		}
		sort.Strings(bad)
		k.r.Check(len(bad) == 0, id+".owner/"+app.name+"."+fn.Name()+".entries", "WHO-MAY-CALL", funcName(fn), k.w.Pos(fn.Pos()), "reachable only through the transfer message and the two packet callbacks", "reachable from other entry points: "+strings.Join(bad, ", "))
	}
	if n == 0 {
		k.r.Violate(id+".owner/"+app.name, "WHO-MAY-CALL", shortPath(app.keeperPkg), "-", "no token mutations found in the application")
	}
	// module callbacks are invoked only by the core handlers
	for _, cb := range []string{"OnRecvPacket", "OnAcknowledgementPacket"} {
		fn := k.w.Method(app.modPkg, "AppModule", cb)
		if fn == nil {
			continue
		}
		var bad []string
		for c := range k.cg.Callers[fn] {
			if !k.w.IsProd(c) {
				continue
			}
			if !strings.HasPrefix(funcName(c), "(core/keeper.msgServer).") {
				bad = append(bad, funcName(c))
			}
		}
		sort.Strings(bad)
		k.r.Check(len(bad) == 0, id+".owner/"+app.name+".callback."+cb, "WHO-MAY-CALL", funcName(fn), k.w.Pos(fn.Pos()), "callback invoked only by the core message handlers", "callback also invoked from "+strings.Join(bad, ", "))
	}
}

// namespaceRule: native classes shaped like voucher paths are rejected before the
// direction decision (NFT); MT native ids cannot carry the prefix.
func (k *K) namespaceRule(id string, app appDesc) {
	fi := k.method(app.keeperPkg, "Keeper", app.send)
	if fi == nil {
		return
	}
	fn := fnShort(fi)
	sp := sendParamsOf(fi, app)
	if sp == nil {
		return
	}
	calls := callsNamed(fi, "determineAwayFromOrigin")
	if len(calls) == 0 {
		k.r.Violate(id+"/"+app.name, "GUARD-DOM", fn, k.w.Pos(fi.Fn.Pos()), "send does not call determineAwayFromOrigin")
		return
	}
	if app.name == "mt" {
		// native MT denom ids are generated by the MT module as lower-case hex of a sha256: they
		// can never start with the path prefix "mt" (m, t are not hex digits)
		ok := false
		for _, f := range k.w.Funcs {
			if f.Pkg != nil && f.Pkg.Pkg.Path() == "mods.irisnet.org/modules/mt/keeper" && f.Name() == "genDenomID" {
				t := k.w.FI(f)
				for _, rt := range t.Returns() {
					s := t.T.Of(RetVal(rt.Instr, 0)).String()
					if strings.Contains(s, `fmt.Sprintf(const("%x")`) && strings.Contains(s, "crypto/sha256.Sum256") {
						ok = true
					}
				}
			}
		}
		k.r.Check(ok, id+"/mt", "CONST-EVAL", "mods.irisnet.org/modules/mt/keeper.genDenomID", "-", "native MT class ids are hex hashes and cannot collide with the voucher path namespace", "cannot confirm that native MT class ids are module-generated hex hashes (the pinned MT module changed?)")
		return
	}
	for _, c := range calls {
		// on the path where the class is NOT a stored voucher (no tibc- prefix), a path-shaped class must have been rejected
		classArg := fi.T.Of(CallArgs(&c.Call)[0])
		_ = classArg
		hp := "strings.HasPrefix(" + sp.class.String() + `,const("` + "nft" + `"))`
		ct := "strings.Contains(" + sp.class.String() + `,const("/"))`
		// a fail-only branch guarded by both predicates on the raw class parameter
		rejected := false
		// in the send function itself or in a helper it calls on the class parameter
		for _, sc := range k.scopes(fi, 2) {
			for _, f := range sc.Fi.facts {
				if f.Op != "true" || (f.L.String() != hp && f.L.String() != ct) {
					continue
				}
				blk := f.If.Block().Succs[f.Succ]
				if sc.Fi.HasAtom(blk, hp) && sc.Fi.HasAtom(blk, ct) && failsOnly(sc.Fi, blk) {
					// a failing helper must fail the send: its error is checked by the caller
					if sc.Outer == nil {
						rejected = true
					} else if oc, ok := sc.Outer.(*ssa.Call); ok {
						u := fi.errUse(oc)
						if !u.Dropped && !u.Unchecked && u.SwallowedAt == nil {
							rejected = true
						}
					}
				}
			}
		}
		// and it happens before the direction decision on every path that does not go through ClassPathFromHash
		k.r.Check(rejected, id+"/nft", "GUARD-DOM", fn, fi.InstrPos(c), "a native class with the voucher-path shape (prefix and delimiter) is rejected", "a user-issued native class that reads like a voucher path (e.g. nft/<B>/<A>/x; the NFT module allows '/' in class ids and does not reserve the prefix) reaches determineAwayFromOrigin: it is burned here and the destination releases x from its escrow")
	}
}

func ruleTransferApp(w *World, r *Report, id string, app appDesc) {
	k := newK(w, r)
	k.whoMayMutate(id, app)
	k.appSendRule(id+".send", app)
	k.packetDataRule(id+".send", app)
	k.recvRule(id, app)
	k.refundRule(id, app)
	k.traceRule(id+".trace", app)
	k.pathArithRule(id+".path", app)
	k.ackOnceRule(id + ".ackonce")
	if id == "C04" {
		k.callbackChainRule("C04.ack.source", "Acknowledgement", "OnAcknowledgementPacket", "GetSourceChain")
		k.callbackChainRule("C04.recv.dest", "RecvPacket", "OnRecvPacket", "GetDestChain")
		k.namespaceRule("C04.namespace", app)
		r.MinInstances("C04.", 45)
	}
	if id == "C05" {
		k.amountRules("C05", app)
		r.MinInstances("C05.", 50)
	}
}

// amountRules: C05-specific clauses.
func (k *K) amountRules(id string, app appDesc) {
	// no arithmetic / narrowing on amounts anywhere in the module
	n := 0
	for _, fn := range k.w.Funcs {
		if !k.w.IsProd(fn) || !strings.HasPrefix(fn.Pkg.Pkg.Path(), strings.TrimSuffix(app.keeperPkg, "/keeper")) || k.w.isGenerated(fn) {
			continue
		}
		fi := k.w.FI(fn)
		for _, b := range fn.Blocks {
			for _, in := range b.Instrs {
				var t *Term
				switch x := in.(type) {
				case *ssa.BinOp:
					switch x.Op.String() {
					case "+", "-", "*", "/", "%", "<<", ">>":
						t = fi.T.Of(x)
					}
				case *ssa.Convert:
					t = fi.T.Of(x)
				}
				if t == nil {
					continue
				}
				s := t.String()
				if strings.Contains(s, ".Amount") || (fn.Name() == app.send && strings.Contains(s, "$9")) {
					n++
					k.r.Violate(id+".noarith/"+funcName(fn), "FORBIDDEN-REACH", funcName(fn), k.w.Pos(in.Pos()), "arithmetic or conversion applied to a token amount: "+clip(s)+" (amounts must be moved unchanged; wrap-around or truncation would create or destroy units)")
				}
			}
		}
	}
	if n == 0 {
		k.r.OK(id+".noarith/none", "FORBIDDEN-REACH", shortPath(app.keeperPkg), "-", "no arithmetic or conversion on amounts in the mt-transfer module")
	}
	// amount must be positive
	if fi := k.method(app.typesPkg, "MultiTokenPacketData", "ValidateBasic"); fi != nil {
		amt := FieldT(P(0), "Amount").String()
		ok, ret := k.successRequires(fi, func(f Fact) bool {
			return (f.Op == "<" && f.L.String() == "const(0)" && f.R.String() == amt) || (f.Op == "!=" && (f.L.String() == amt || f.R.String() == amt) && (f.L.String() == "const(0)" || f.R.String() == "const(0)"))
		}, 0)
		k.r.Check(ok, id+".positive/ValidateBasic", "GUARD-DOM", fnShort(fi), k.w.Pos(fi.Fn.Pos()), "packet data with amount 0 is rejected", "MultiTokenPacketData.ValidateBasic can succeed with amount 0 — offending return at "+retPos(fi, ret))
	}
	// overflow guards of the pinned MT module
	for _, name := range []string{"AddBalance", "IncreaseMTSupply"} {
		var fn *ssa.Function
		for _, f := range k.w.Funcs {
			if f.Pkg != nil && f.Pkg.Pkg.Path() == "mods.irisnet.org/modules/mt/keeper" && f.Name() == name {
				fn = f
			}
		}
		if fn == nil {
			k.r.Undecided(id+".dep.overflow/"+name, "GUARD-DOM", name, "-", "pinned MT module function not loaded")
			continue
		}
		fi := k.w.FI(fn)
		// every store write is dominated by  amount <= MaxUint64 - current
		okAll := true
		nSets := 0
		for _, b := range fn.Blocks {
			for _, in := range b.Instrs {
				ci, ok := in.(ssa.CallInstruction)
				if !ok {
					continue
				}
				name := calleeShort(ci.Common())
				if !(strings.HasPrefix(name, "set") || strings.HasPrefix(name, "Set")) {
					continue
				}
				nSets++
				g := fi.HasFact(b, func(f Fact) bool {
					return f.Op == "<=" && f.R.Op == "bin" && f.R.Name == "-" && strings.Contains(f.R.Args[0].String(), "18446744073709551615")
				})
				if !g {
					okAll = false
				}
			}
		}
		k.r.Check(okAll && nSets > 0, id+".dep.overflow/"+name, "GUARD-DOM", funcName(fn), k.w.Pos(fn.Pos()), "writes dominated by amount <= MaxUint64 - current", "the pinned MT module's "+name+" writes without an overflow guard")
	}
	// error propagation on MtKeeper calls
	for _, fname := range []string{app.send, "OnRecvPacket", "refundPacketToken", "OnAcknowledgementPacket"} {
		if fi := k.method(app.keeperPkg, "Keeper", fname); fi != nil {
			k.errPropRule(id+".errprop", fi, map[string]string{"IssueDenom": "voucher class creation on first receipt: the class was just found missing; if issuing fails the following IssueMT for that class fails and its error is propagated"})
		}
	}
}

// ---------------------------------------------------------------------------------- C06

func fingerprint(w *World, fn *ssa.Function, repl map[string]string) []string {
	fi := w.FI(fn)
	var out []string
	norm := func(s string) string {
		for a, b := range repl {
			s = strings.ReplaceAll(s, a, b)
		}
		return s
	}
	for _, f := range fi.facts {
		out = append(out, "fact "+norm(f.Atom))
	}
	for _, rt := range fi.Returns() {
		var rs []string
		for i := range rt.Instr.Results {
			rs = append(rs, fi.T.Of(RetVal(rt.Instr, i)).String())
		}
		out = append(out, "return "+norm(strings.Join(rs, " ; ")))
	}
	for _, b := range fn.Blocks {
		for _, in := range b.Instrs {
			if ci, ok := in.(ssa.CallInstruction); ok {
				if v, ok := in.(ssa.Value); ok {
					out = append(out, "call "+norm(fi.T.Of(v).String()))
				} else {
					out = append(out, "call "+norm(fi.T.callTermNoInline(ci.Common()).String()))
				}
			}
		}
	}
	sort.Strings(out)
	return out
}

func ruleC06(w *World, r *Report) {
	k := newK(w, r)
	for _, app := range apps {
		k.refundRule("C06", app)
		k.packetDataRule("C06.send", app)
		k.namespaceRule("C06.delim", app)
		k.traceRule("C06.trace", app)
		// round trip: each hop away inserts one path element, each hop back removes it, all
		// other elements are kept; the sender decides the direction against the destination
		k.pathArithRule("C06.path", app)
		k.appSendRule("C06.send", app)
		// a failed receive (error acknowledgement, refund on the source) must not leave vouchers
		// behind: everything that can fail precedes the first token operation (shared with C19)
		k.recvRule("C06", app)
	}
	k.ackOnceRule("C06.ackonce")
	// a transfer that is refunded (relay chain's error acknowledgement) is not also delivered
	k.relayAuthRule("C06.relay")
	// sibling agreement of the path helpers
	nft, mt := apps[0], apps[1]
	replN := map[string]string{"apps/nft_transfer": "APP", `const("nft")`: "const(PFX)", "NonFungibleTokenPacketData": "PacketData"}
	replM := map[string]string{"apps/mt_transfer": "APP", `const("mt")`: "const(PFX)", "MultiTokenPacketData": "PacketData"}
	type helper struct{ pkgN, pkgM, typ, name string }
	hs := []helper{
		{nft.keeperPkg, mt.keeperPkg, "Keeper", "determineAwayFromOrigin"},
		{nft.keeperPkg, mt.keeperPkg, "Keeper", "getAwayNewClassPath"},
		{nft.keeperPkg, mt.keeperPkg, "Keeper", "getBackNewClassPath"},
		{nft.keeperPkg, mt.keeperPkg, "Keeper", "concatClassPath"},
		{nft.keeperPkg, mt.keeperPkg, "Keeper", "getIBCClassFromClassPath"},
		{nft.keeperPkg, mt.keeperPkg, "Keeper", "ClassPathFromHash"},
		{nft.typesPkg, mt.typesPkg, "ClassTrace", "IBCClass"},
		{nft.typesPkg, mt.typesPkg, "ClassTrace", "GetFullClassPath"},
		{nft.typesPkg, mt.typesPkg, "ClassTrace", "Hash"},
		{nft.typesPkg, mt.typesPkg, "", "ParseClassTrace"},
	}
	for _, h := range hs {
		var fa, fb *ssa.Function
		if h.typ == "" {
			fa, fb = w.Func(h.pkgN, h.name), w.Func(h.pkgM, h.name)
		} else {
			fa, fb = w.Method(h.pkgN, h.typ, h.name), w.Method(h.pkgM, h.typ, h.name)
		}
		if r.BrokenIf(fa == nil || fb == nil, "path helper %s missing in one application", h.name) {
			continue
		}
		a, b := fingerprint(w, fa, replN), fingerprint(w, fb, replM)
		same := strings.Join(a, "\n") == strings.Join(b, "\n")
		diff := ""
		if !same {
			am, bm := map[string]bool{}, map[string]bool{}
			for _, x := range a {
				am[x] = true
			}
			for _, x := range b {
				bm[x] = true
			}
			for _, x := range a {
				if !bm[x] {
					diff += " nft-only: " + clip(x) + ";"
				}
			}
			for _, x := range b {
				if !am[x] {
					diff += " mt-only: " + clip(x) + ";"
				}
			}
		}
		// A textual/structural difference between the two copies is not by itself a
		// violation (one copy may have been refactored): it is reported for the reader,
		// the per-application rules above decide.
		if same {
			r.OK("C06.nft-mt/"+h.name, "SIBLING", funcName(fa)+" vs "+funcName(fb), w.Pos(fa.Pos()), "identical up to the prefix constant")
		} else {
			r.Info("C06.nft-mt/"+h.name, "SIBLING", funcName(fa)+" vs "+funcName(fb), w.Pos(fa.Pos()), "the NFT and MT versions of "+h.name+" are structured differently:"+clip(diff))
		}
	}
	// sender-side direction test and receiver-side path extension use the same path predicate
	for _, app := range apps {
		preds := func(name string) []string {
			fn := w.Method(app.keeperPkg, "Keeper", name)
			if fn == nil {
				return nil
			}
			set := map[string]bool{}
			// the class parameter: $1 in determineAwayFromOrigin(class, dest), $3 in getAwayNewClassPath(src, dest, class)
			classParam := "$1"
			if name == "getAwayNewClassPath" {
				classParam = "$3"
			}
			var collect func(fi *FnInfo, cp string, depth int)
			collect = func(fi *FnInfo, cp string, depth int) {
				for _, f := range fi.facts {
					if f.Op != "true" && f.Op != "false" {
						continue
					}
					t := f.L
					s := t.String()
					if (strings.HasPrefix(s, "strings.HasPrefix(") || strings.HasPrefix(s, "strings.Contains(")) && len(t.Args) == 2 && t.Args[0].String() == cp {
						set[strings.Replace(s, cp, "CLASS", 1)] = true
						continue
					}
					// a boolean helper on the class ("isVoucherClassPath(class)"): use its own predicates
					if t.Op == "call" && depth > 0 {
						for _, b := range fi.Fn.Blocks {
							for _, in := range b.Instrs {
								c, ok := in.(*ssa.Call)
								if !ok || c.Call.StaticCallee() == nil || c.Call.StaticCallee().Blocks == nil || fi.T.Of(c).String() != s {
									continue
								}
								callee := c.Call.StaticCallee()
								if callee.Pkg != fi.Fn.Pkg {
									continue
								}
								for i, a := range c.Call.Args {
									if fi.T.Of(a).String() == cp && i < len(callee.Params) {
										collect(w.FI(callee), fmt.Sprintf("$%d", i), depth-1)
									}
								}
							}
						}
					}
				}
			}
			collect(w.FI(fn), classParam, 1)
			// predicates returned (not branched on) by a boolean helper: "return a && b"
			for _, f := range w.FI(fn).facts {
				if (f.Op == "true" || f.Op == "false") && f.L.Op == "call" {
					for _, b := range fn.Blocks {
						for _, in := range b.Instrs {
							c, ok := in.(*ssa.Call)
							if !ok || c.Call.StaticCallee() == nil || c.Call.StaticCallee().Blocks == nil || c.Call.StaticCallee().Pkg != fn.Pkg || w.FI(fn).T.Of(c).String() != f.L.String() {
								continue
							}
							hf := w.FI(c.Call.StaticCallee())
							for _, rt := range hf.Returns() {
								hf.T.Of(RetVal(rt.Instr, 0)).Walk(func(x *Term) {
									xs := x.String()
									if x.Op == "call" && (strings.HasPrefix(xs, "strings.HasPrefix($") || strings.HasPrefix(xs, "strings.Contains($")) && len(x.Args) == 2 {
										set[strings.Replace(xs, x.Args[0].String(), "CLASS", 1)] = true
									}
								})
							}
						}
					}
				}
			}
			var out []string
			for s := range set {
				out = append(out, s)
			}
			sort.Strings(out)
			return out
		}
		a, b := preds("determineAwayFromOrigin"), preds("getAwayNewClassPath")
		r.Check(len(a) >= 2 && strings.Join(a, ";") == strings.Join(b, ";"), "C06.agree/"+app.name, "SIBLING", shortPath(app.keeperPkg), "-", "sender-side direction test and receiver-side path extension use the same 'is a voucher path' predicate: "+strings.Join(a, " && "), fmt.Sprintf("determineAwayFromOrigin tests %v but getAwayNewClassPath tests %v: a class that one side treats as native and the other as a path cannot be returned to its original class", a, b))
	}
	r.MinInstances("C06.", 40)
}

// ---------------------------------------------------------------------------------- C19

func ruleC19(w *World, r *Report) {
	k := newK(w, r)
	// error propagation in handlers, callbacks and keeper functions
	type tgt struct {
		pkg, typ, name string
		sanctioned     map[string]string
	}
	var targets []tgt
	for _, h := range []string{"CreateClient", "UpdateClient", "UpgradeClient", "RegisterRelayer", "SetRoutingRules", "Acknowledgement", "CleanPacket", "RecvCleanPacket"} {
		targets = append(targets, tgt{pCoreKeeper, "msgServer", h, nil})
	}
	targets = append(targets, tgt{pCoreKeeper, "msgServer", "RecvPacket", map[string]string{"RecvPacket": "ErrUnauthorized is converted into a written error acknowledgement (the only sanctioned error->success conversion of the core handler)"}})
	for _, app := range apps {
		targets = append(targets,
			tgt{app.keeperPkg, "Keeper", app.msg, nil},
			tgt{app.keeperPkg, "Keeper", app.send, nil},
			tgt{app.keeperPkg, "Keeper", "refundPacketToken", nil},
			tgt{app.keeperPkg, "Keeper", "OnAcknowledgementPacket", nil},
			tgt{app.modPkg, "AppModule", "OnAcknowledgementPacket", nil},
			tgt{app.modPkg, "AppModule", "OnRecvPacket", map[string]string{"OnRecvPacket": "application error is converted into an error acknowledgement in the same committing transaction"}},
		)
		san := map[string]string(nil)
		if app.name == "mt" {
			san = map[string]string{"IssueDenom": "voucher class creation on first receipt; a failure surfaces in the following IssueMT whose error is propagated"}
		}
		targets = append(targets, tgt{app.keeperPkg, "Keeper", "OnRecvPacket", san})
	}
	for _, name := range []string{"SendPacket", "RecvPacket", "AcknowledgePacket", "WriteAcknowledgement", "CleanPacket", "RecvCleanPacket"} {
		targets = append(targets, tgt{pPacketKeeper, "Keeper", name, nil})
	}
	for _, name := range []string{"CreateClient", "UpdateClient", "UpgradeClient"} {
		targets = append(targets, tgt{pClientKeeper, "Keeper", name, nil})
	}
	for _, t := range targets {
		if fi := k.method(t.pkg, t.typ, t.name); fi != nil {
			k.errPropRule("C19.errprop", fi, t.sanctioned)
		}
	}
	// application error -> error acknowledgement
	for _, app := range apps {
		fi := k.method(app.modPkg, "AppModule", "OnRecvPacket")
		if fi == nil {
			continue
		}
		fn := fnShort(fi)
		cbs := callsNamed(fi, "OnRecvPacket")
		for _, rt := range fi.Returns() {
			if rt.Kind == RetFail {
				continue
			}
			ackT := fi.T.Of(RetVal(rt.Instr, 1))
			s := ackT.String()
			// the acknowledgement is a cell/phi over {result ack, error ack}; the error alternative must exist
			hasErr := strings.Contains(s, "Acknowledgement_Error")
			hasRes := strings.Contains(s, "Acknowledgement_Result")
			k.r.Check(hasErr && hasRes, "C19.appack/"+app.name+".both", "MUST-PASS", fn, fi.InstrPos(rt.Instr), "returned acknowledgement is the result ack or the error ack", "the acknowledgement returned by AppModule.OnRecvPacket is "+clip(s)+": it does not offer both a result and an error alternative")
		}
		// the acknowledgement is a merge (phi) of the result ack and the error ack: the
		// error alternative must flow in exactly from the path on which the keeper failed,
		// the result alternative exactly from the path on which it succeeded
		nPhi := 0
		for _, b := range fi.Fn.Blocks {
			for _, in := range b.Instrs {
				phi, ok := in.(*ssa.Phi)
				if !ok {
					continue
				}
				hasE := false
				for _, e := range phi.Edges {
					if strings.Contains(fi.T.Of(e).String(), "Acknowledgement_Error") {
						hasE = true
					}
				}
				if !hasE {
					continue
				}
				nPhi++
				for i, e := range phi.Edges {
					isErr := strings.Contains(fi.T.Of(e).String(), "Acknowledgement_Error")
					pred := b.Preds[i]
					failed, succeeded := false, false
					for _, c := range cbs {
						et := fi.ErrTermOfCall(c)
						// the fact on the edge pred->b itself counts (pred may end in the test)
						if fi.HasAtom(pred, atomNE(et, "nil")) || edgeHasAtom(fi, pred, b, atomNE(et, "nil")) {
							failed = true
						}
						if fi.HasAtom(pred, atomEQ(et, "nil")) || edgeHasAtom(fi, pred, b, atomEQ(et, "nil")) {
							succeeded = true
						}
					}
					if isErr {
						k.r.Check(failed, "C19.appack/"+app.name+".error-branch", "GUARD-DOM", fn, fi.InstrPos(phi), "error acknowledgement chosen exactly when the keeper callback failed", "the error acknowledgement is selected on a path not guarded by 'keeper OnRecvPacket returned an error'")
					} else {
						k.r.Check(succeeded, "C19.appack/"+app.name+".converted", "GUARD-DOM", fn, fi.InstrPos(phi), "the result acknowledgement is kept only when the keeper callback succeeded", "the result (success) acknowledgement can be returned although the keeper callback failed: the packet would be acknowledged as successful while the receive failed")
					}
				}
			}
		}
		k.r.Check(nPhi > 0, "C19.appack/"+app.name+".merge", "MUST-PASS", fn, k.w.Pos(fi.Fn.Pos()), "acknowledgement is chosen between result and error", "no merge of a result and an error acknowledgement found: application errors are not converted into error acknowledgements")
		// validation precedes token writes (shared with C04/C05 receive rules)
		k.recvRule("C19", app)
	}
	// records written on the ErrUnauthorized path: receipt + ack (+ maxAck)
	if fi := k.method(pPacketKeeper, "Keeper", "RecvPacket"); fi != nil {
		ei := fi.errIndex()
		for _, rt := range fi.Returns() {
			if rt.Kind != RetFail || fi.T.Of(RetVal(rt.Instr, ei)).String() != errUnauthorized {
				continue
			}
			// writes that every path to this return may have passed
			var passed []string
			for _, s := range k.EffectSites(fi) {
				if !strings.HasPrefix(s.What, "Set:") && !strings.HasPrefix(s.What, "Delete:") {
					continue
				}
				// can the site precede the return?
				if reaches(s.Instr.Block(), rt.Instr.Block()) {
					passed = append(passed, s.What)
				}
			}
			sort.Strings(passed)
			ok := len(passed) == 1 && passed[0] == "Set:receipts"
			k.r.Check(ok, "C19.ack.records/refusal-writes", "EFFECT-SET", fnShort(fi), fi.InstrPos(rt.Instr), "before a whitelist refusal RecvPacket has written exactly the receipt", "before returning ErrUnauthorized (which msgServer turns into a committed error acknowledgement) RecvPacket may have written "+strings.Join(passed, ", ")+"; only the receipt may be recorded for a refused packet")
		}
	}
	if fi := k.method(pPacketKeeper, "Keeper", "WriteAcknowledgement"); fi != nil {
		var extra []string
		for _, e := range k.cg.Writes(fi.Fn) {
			if e != "Set:acks" && e != "Set:maxAckSeq" {
				extra = append(extra, e)
			}
		}
		k.r.Check(len(extra) == 0, "C19.ack.records/WriteAcknowledgement", "EFFECT-SET", fnShort(fi), k.w.Pos(fi.Fn.Pos()), "WriteAcknowledgement writes only the acknowledgement and maxAck", "WriteAcknowledgement also writes "+strings.Join(extra, ", "))
	}
	// no process-global state
	entries := k.consensusEntries()
	reach := map[*ssa.Function]bool{}
	for _, e := range entries {
		for _, f := range k.cg.Reachable(e) {
			if w.IsProd(f) {
				reach[f] = true
			}
		}
	}
	var fns []*ssa.Function
	for f := range reach {
		fns = append(fns, f)
	}
	sort.Slice(fns, func(i, j int) bool { return fns[i].String() < fns[j].String() })
	k.globalWriteRule("C19.nostate", fns)
	k.keeperMemRule("C19.nostate.keeper", fns)
	r.Info("C19.token-after-error-ack", "MUST-PASS", "apps", "-", "not armed: AppModule.OnRecvPacket does not run the keeper callback on a cached context, so a token-module failure between two mutations (e.g. IssueDenom ok, MintNFT fails) leaves the first mutation committed under an error acknowledgement; deciding whether such a failure is possible needs value reasoning about the token modules")
	// a handler does not branch the store for a part of its work
	k.ctxRule("C19.ctx")
	r.MinInstances("C19.", 90)
}

// reaches: block b can reach block t in the CFG.
func reaches(b, t *ssa.BasicBlock) bool {
	seen := map[int]bool{b.Index: true}
	stack := []*ssa.BasicBlock{b}
	for len(stack) > 0 {
		x := stack[len(stack)-1]
		stack = stack[:len(stack)-1]
		if x == t {
			return true
		}
		for _, s := range x.Succs {
			if !seen[s.Index] {
				seen[s.Index] = true
				stack = append(stack, s)
			}
		}
	}
	return false
}
