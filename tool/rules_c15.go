package main

import (
	"fmt"
	"os"
	"path/filepath"
	"regexp"
	"sort"
	"strings"

	"golang.org/x/tools/go/ssa"
)

func init() {
	register("C15", propMeta{
		Explanation: "Decides, on every path: in msgServer.CreateClient/UpgradeClient/RegisterRelayer/SetRoutingRules every state write and event is dominated by the equal edge of 'keeper authority == msg.Authority'; in msgServer.UpdateClient the client update is dominated by AuthRelayer(ctx, msg.ChainName, msg.Signer) == true for the same chain name, and AuthRelayer returns true only on string equality with an entry of that chain's registered relayers; the cosmos.msg.v1.signer option of each of the five messages names the field the handler compares (so the compared account is the one whose signature the SDK verified); ClientKeeper.CreateClient is invoked only where a lookup of the same chain name found no client (message handler and proposal handler); ClientKeeper.UpgradeClient overwrites the client state only past 'existing client found' and 'old.ClientType() == new.ClientType()'; the privileged keeper operations are called only from the guarded handlers, the governance proposal handlers and genesis. An accepted SetRoutingRules always writes the new table. NOT decided: that a refused request changes nothing (SDK rollback, trusted).",
		Assumptions: []string{"the SDK verifies the signature of the account named by the cosmos.msg.v1.signer option", "cosmos-sdk store branching discards writes of failed messages"},
		Trusted:     commonTrusted,
	}, ruleC15)
}

func ruleC15(w *World, r *Report) {
	k := newK(w, r)
	// --- authority guard
	for _, h := range []string{"CreateClient", "UpgradeClient", "RegisterRelayer", "SetRoutingRules"} {
		fi := k.method(pCoreKeeper, "msgServer", h)
		if fi == nil {
			continue
		}
		fn := fnShort(fi)
		var msg *Term
		for i, p := range fi.Fn.Params {
			if strings.Contains(typeString(p.Type()), "types.Msg") {
				msg = P(i)
			}
		}
		if r.BrokenIf(msg == nil, "%s: msg parameter not identified", fn) {
			continue
		}
		auth := FieldT(msg, "Authority").String()
		guard := func(f Fact) bool {
			if f.Op != "==" {
				return false
			}
			for _, pr := range [][2]*Term{{f.L, f.R}, {f.R, f.L}} {
				if pr[0].String() == auth && pr[1].Op == "field" && pr[1].Name == "authority" {
					return true
				}
			}
			return false
		}
		sites := append(k.EffectSites(fi), returnSites(fi, "")...)
		nw := 0
		for _, s := range sites {
			if strings.HasPrefix(s.What, "Set:") || strings.HasPrefix(s.What, "Delete:") {
				nw++
			}
			r.Check(fi.HasFact(s.Instr.Block(), guard), "C15.auth/"+h+"."+s.What, "GUARD-DOM", fn, fi.InstrPos(s.Instr),
				s.What+" dominated by keeper.authority == msg.Authority", s.What+" is reachable without the check 'configured authority == msg.Authority'")
		}
		r.Check(nw > 0, "C15.auth/"+h+".effect", "MUST-PASS", fn, w.Pos(fi.Fn.Pos()), "handler has a state effect", "handler performs no state write at all")
	}

	// --- relayer guard
	if fi := k.method(pCoreKeeper, "msgServer", "UpdateClient"); fi != nil {
		fn := fnShort(fi)
		msg := paramByType(fi.Fn, "MsgUpdateClient")
		if !r.BrokenIf(msg == nil, "UpdateClient: msg parameter not identified") {
			chain, signer := FieldT(msg, "ChainName").String(), FieldT(msg, "Signer").String()
			guard := func(f Fact) bool {
				return f.Op == "true" && k.isRelayerMembership(f.L, chain, signer)
			}
			ups := callsNamed(fi, "UpdateClient")
			if len(ups) == 0 {
				r.Violate("C15.relayer/call", "MUST-PASS", fn, w.Pos(fi.Fn.Pos()), "handler does not call ClientKeeper.UpdateClient")
			}
			for _, c := range ups {
				r.Check(fi.HasFact(c.Block(), guard), "C15.relayer/guard", "GUARD-DOM", fn, fi.InstrPos(c), "client update dominated by AuthRelayer(ctx, msg.ChainName, msg.Signer)", "client update is reachable without AuthRelayer(ctx, msg.ChainName, msg.Signer) == true (wrong chain, wrong account or no check)")
				a := termsOf(fi, CallArgs(&c.Call))
				if len(a) >= 2 {
					r.Check(a[1] == chain, "C15.relayer/same-chain", "BIND", fn, fi.InstrPos(c), "updates the client of msg.ChainName", "updates the client of "+a[1]+" but authorises the relayer for "+chain)
				}
			}
			for _, s := range returnSites(fi, "") {
				r.Check(fi.HasFact(s.Instr.Block(), guard), "C15.relayer/"+s.What, "GUARD-DOM", fn, fi.InstrPos(s.Instr), "success dominated by the relayer check", "handler can succeed without the relayer check")
			}
		}
	}
	if fi := k.method(pClientKeeper, "Keeper", "AuthRelayer"); fi != nil {
		fn := fnShort(fi)
		chain, relayer := P(2).String(), P(3).String()
		n := 0
		for _, rt := range fi.Returns() {
			v := RetVal(rt.Instr, 0)
			c, isConst := v.(*ssa.Const)
			if isConst && c.Value != nil && c.Value.String() == "false" {
				continue
			}
			n++
			// "return slices.Contains(k.GetRelayers(ctx, chainName), relayer)"
			if k.isRelayerMembership(fi.T.Of(v), chain, relayer) {
				r.OK("C15.relayer/AuthRelayer", "GUARD-DOM", fn, fi.InstrPos(rt.Instr), "returns membership of the account in the registered relayers of that chain")
				continue
			}
			ok := fi.HasFact(rt.Instr.Block(), func(f Fact) bool {
				if f.Op != "==" {
					return false
				}
				for _, pr := range [][2]*Term{{f.L, f.R}, {f.R, f.L}} {
					if pr[0].String() == relayer && pr[1].Mentions(func(x *Term) bool {
						if x.Op == "call" && strings.HasSuffix(x.Name, ".GetRelayers") && len(x.Args) == 3 && x.Args[2].String() == chain {
							return true
						}
						// inlined: relayer store read keyed by the chain name
						if x.Op == "invoke" && x.Name == "Get" && len(x.Args) == 2 && x.Args[1].String() == chain {
							sh := k.w.storePrefix(x.Args[0], 0)
							return normalize(sh).Class() == "relayers"
						}
						return false
					}) {
						return true
					}
				}
				return false
			})
			r.Check(ok, "C15.relayer/AuthRelayer", "GUARD-DOM", fn, fi.InstrPos(rt.Instr), "returns true only when the account equals a registered relayer of that chain", "AuthRelayer can return a non-false result without 'relayer == entry of GetRelayers(ctx, chainName)'")
		}
		r.Check(n > 0, "C15.relayer/AuthRelayer.true", "MUST-PASS", fn, w.Pos(fi.Fn.Pos()), "has an accepting return", "AuthRelayer never accepts")
	}

	// the registry lookup reads exactly the entry of that chain name
	if fi := k.method(pClientKeeper, "Keeper", "GetRelayers"); fi != nil {
		ops := k.cg.Ops(fi.Fn)
		var desc []string
		exact := 0
		for _, op := range ops {
			desc = append(desc, op.String())
			if op.Op == "Get" && op.Shape.Class() == "relayers" && strings.Join(op.Shape.HoleTerms(), ",") == P(2).String() {
				exact++
			}
		}
		r.Check(exact == 1 && len(ops) == 1, "C15.relayer/GetRelayers", "KEY-SHAPE", fnShort(fi), w.Pos(fi.Fn.Pos()),
			"the relayer list is read from the single registry entry keyed by the chain name",
			"the relayer list of a chain is not read from exactly the registry entry keyed by that chain name (store operations: "+strings.Join(desc, "; ")+")")
		for _, rt := range fi.Returns() {
			v := fi.T.Of(RetVal(rt.Instr, 0))
			r.Check(strings.Contains(v.String(), ".Get($2)"), "C15.relayer/GetRelayers.result", "BIND", fnShort(fi), fi.InstrPos(rt.Instr), "result decoded from that entry", "result "+clip(v.String())+" is not decoded from the entry of the chain name")
		}
	}

	// --- signer option in the proto files
	k.signerOptionRule("C15.signer")

	// --- create never overwrites
	create := w.Method(pClientKeeper, "Keeper", "CreateClient")
	for _, h := range []struct{ pkg, typ, name, chain string }{
		{pCoreKeeper, "msgServer", "CreateClient", "ChainName"},
		{pClientKeeper, "Keeper", "HandleCreateClientProposal", "ChainName"},
	} {
		fi := k.method(h.pkg, h.typ, h.name)
		if fi == nil {
			continue
		}
		fn := fnShort(fi)
		calls := callsNamed(fi, "CreateClient")
		if len(calls) == 0 {
			r.Violate("C15.exists/"+h.name, "GUARD-DOM", fn, w.Pos(fi.Fn.Pos()), "no call to ClientKeeper.CreateClient")
		}
		for _, c := range calls {
			if c.Call.StaticCallee() != create {
				continue
			}
			a := termsOf(fi, CallArgs(&c.Call))
			chain := a[1]
			ok := fi.HasFact(c.Block(), func(f Fact) bool {
				t := f.L
				if f.Op != "false" || t.Op != "extract" || t.Name != "1" {
					return false
				}
				g := t.Args[0]
				return g.Op == "call" && strings.HasSuffix(g.Name, ".GetClientState") && len(g.Args) == 3 && g.Args[2].String() == chain
			})
			r.Check(ok, "C15.exists/"+h.name, "GUARD-DOM", fn, fi.InstrPos(c), "client created only where GetClientState(ctx, same chain name) found nothing", "ClientKeeper.CreateClient("+chain+") is reachable without a dominating 'no client exists for "+chain+"' check: an existing client would be overwritten")
		}
	}

	// --- upgrade keeps the type
	if fi := k.method(pClientKeeper, "Keeper", "UpgradeClient"); fi != nil {
		fn := fnShort(fi)
		chain, newCS := P(2).String(), P(3).String()
		sets := k.callsWithEffect(fi, "Set:clients")
		if len(sets) == 0 {
			r.Violate("C15.type/none", "MUST-PASS", fn, w.Pos(fi.Fn.Pos()), "UpgradeClient writes nothing")
		}
		old := ""
		for _, s := range sets {
			found := fi.HasFact(s.Block(), func(f Fact) bool {
				t := f.L
				if f.Op == "true" && t.Op == "extract" && t.Name == "1" && t.Args[0].Op == "call" && strings.HasSuffix(t.Args[0].Name, ".GetClientState") && t.Args[0].Args[2].String() == chain {
					old = (&Term{Op: "extract", Name: "0", Args: []*Term{t.Args[0]}}).String()
					return true
				}
				return false
			})
			r.Check(found, "C15.type/exists", "GUARD-DOM", fn, fi.InstrPos(s), "upgrade writes only when the client exists", "upgrade can write although no client exists for the chain name")
			sameType := fi.HasFact(s.Block(), func(f Fact) bool {
				if f.Op != "==" {
					return false
				}
				a, b := f.L.String(), f.R.String()
				x, y := old+".ClientType()", newCS+".ClientType()"
				return (a == x && b == y) || (a == y && b == x)
			})
			r.Check(sameType, "C15.type/same", "GUARD-DOM", fn, fi.InstrPos(s), "upgrade writes only when old.ClientType() == new.ClientType()", "upgrade can replace the client state without 'existing client type == upgraded client type'")
			a := termsOf(fi, CallArgs(s.Common()))
			if len(a) >= 2 {
				r.Check(a[1] == chain, "C15.type/same-chain", "BIND", fn, fi.InstrPos(s), "writes the client of the chain name parameter", "writes the client of "+a[1])
			}
		}
	}

	// --- who may call the privileged keeper operations
	allowedCallers := func(names ...string) map[string]bool {
		m := map[string]bool{}
		for _, n := range names {
			m[n] = true
		}
		return m
	}
	priv := []struct {
		pkg, name string
		allowed   map[string]bool
	}{
		{pClientKeeper, "CreateClient", allowedCallers("(core/keeper.msgServer).CreateClient", "(core/02-client/keeper.Keeper).HandleCreateClientProposal", "core/02-client.InitGenesis")},
		{pClientKeeper, "UpgradeClient", allowedCallers("(core/keeper.msgServer).UpgradeClient", "(core/02-client/keeper.Keeper).HandleUpgradeClientProposal")},
		{pClientKeeper, "RegisterRelayers", allowedCallers("(core/keeper.msgServer).RegisterRelayer", "(core/02-client/keeper.Keeper).HandleRegisterRelayerProposal", "core/02-client.InitGenesis")},
		{pRoutingKeeper, "SetRoutingRules", allowedCallers("(core/keeper.msgServer).SetRoutingRules", "(core/26-routing/keeper.Keeper).HandleSetRoutingRulesProposal", "core/26-routing.InitGenesis")},
	}
	for _, p := range priv {
		target := w.Method(p.pkg, "Keeper", p.name)
		if r.BrokenIf(target == nil, "privileged operation %s not found", p.name) {
			continue
		}
		var bad []string
		for c := range k.cg.Callers[target] {
			if !w.IsProd(c) {
				continue
			}
			if !p.allowed[funcName(c)] {
				bad = append(bad, funcName(c))
			}
		}
		sort.Strings(bad)
		r.Check(len(bad) == 0, "C15.owner/"+p.name, "WHO-MAY-CALL", funcName(target), w.Pos(target.Pos()), "called only from guarded handlers, proposal handlers and genesis", "privileged operation is also called from: "+strings.Join(bad, ", "))
	}
	// proposal handlers are reachable only from the gov content handler
	for _, h := range []struct{ pkg, name string }{{pClientKeeper, "HandleCreateClientProposal"}, {pClientKeeper, "HandleUpgradeClientProposal"}, {pClientKeeper, "HandleRegisterRelayerProposal"}, {pRoutingKeeper, "HandleSetRoutingRulesProposal"}} {
		target := w.Method(h.pkg, "Keeper", h.name)
		if target == nil {
			continue
		}
		var bad []string
		for c := range k.cg.Callers[target] {
			if !w.IsProd(c) {
				continue
			}
			n := funcName(c)
			if !(strings.Contains(n, "ProposalHandler") || strings.Contains(n, "NewClientProposalHandler") || strings.Contains(n, "NewSetRoutingProposalHandler")) {
				bad = append(bad, n)
			}
		}
		sort.Strings(bad)
		r.Check(len(bad) == 0, "C15.owner/"+h.name, "WHO-MAY-CALL", funcName(target), w.Pos(target.Pos()), "reachable only from the governance content handler", "proposal handler is also called from: "+strings.Join(bad, ", "))
	}
	// an accepted privileged operation takes effect: the new rule table replaces the old one
	k.routingStoreRule("C15.routing.store")
	r.MinInstances("C15.", 30)
}

var (
	reMessageHead = regexp.MustCompile(`message\s+(\w+)\s*\{`)
	reSigner      = regexp.MustCompile(`option\s*\(\s*cosmos\.msg\.v1\.signer\s*\)\s*=\s*"([^"]*)"`)
)

// signerOptionRule reads the .proto sources: the signer option of each privileged
// message must name the field its handler compares.
func (k *K) signerOptionRule(id string) {
	want := map[string]string{
		"MsgCreateClient": "authority", "MsgUpgradeClient": "authority", "MsgRegisterRelayer": "authority",
		"MsgSetRoutingRules": "authority", "MsgUpdateClient": "signer",
	}
	found := map[string]string{}
	where := map[string]string{}
	root := filepath.Join(k.w.Repo, "proto")
	_ = filepath.Walk(root, func(path string, info os.FileInfo, err error) error {
		if err != nil || info.IsDir() || !strings.HasSuffix(path, ".proto") {
			return nil
		}
		bz, err := os.ReadFile(path)
		if err != nil {
			return nil
		}
		src := string(bz)
		for _, loc := range reMessageHead.FindAllStringSubmatchIndex(src, -1) {
			name := src[loc[2]:loc[3]]
			if _, ok := want[name]; !ok {
				continue
			}
			// body = text up to the matching closing brace
			depth, end := 0, -1
			for i := loc[1] - 1; i < len(src); i++ {
				if src[i] == '{' {
					depth++
				} else if src[i] == '}' {
					depth--
					if depth == 0 {
						end = i
						break
					}
				}
			}
			if end < 0 {
				continue
			}
			body := src[loc[1]:end]
			rel, _ := filepath.Rel(k.w.Repo, path)
			where[name] = rel
			if s := reSigner.FindStringSubmatch(body); s != nil {
				found[name] = s[1]
			} else {
				found[name] = ""
			}
		}
		return nil
	})
	names := make([]string, 0, len(want))
	for n := range want {
		names = append(names, n)
	}
	sort.Strings(names)
	for _, n := range names {
		got, ok := found[n]
		if !ok {
			k.r.Undecided(id+"/"+n, "PROTO-OPT", n, "proto/", "message "+n+" not found in the repository's .proto sources")
			continue
		}
		k.r.Check(got == want[n], id+"/"+n, "PROTO-OPT", n, where[n], fmt.Sprintf("cosmos.msg.v1.signer = %q, the field the handler compares", got),
			fmt.Sprintf("cosmos.msg.v1.signer of %s is %q but the handler authorises by field %q: the checked account is not the one whose signature is verified", n, got, want[n]))
	}
}

// isRelayerMembership recognises "account is a registered relayer of chain":
// AuthRelayer(ctx, chain, account), or (when AuthRelayer is a one-liner and therefore
// inlined) slices.Contains(<relayer list of chain>, account).
func (k *K) isRelayerMembership(t *Term, chain, account string) bool {
	if t == nil || t.Op != "call" {
		return false
	}
	n := len(t.Args)
	if strings.HasSuffix(t.Name, ".AuthRelayer") {
		return n >= 3 && t.Args[n-2].String() == chain && t.Args[n-1].String() == account
	}
	base := t.Name
	if i := strings.Index(base, "["); i > 0 {
		base = base[:i] // generic instantiation: slices.Contains[[]string string]
	}
	if (base == "slices.Contains" || strings.HasSuffix(base, "/slices.Contains")) && n == 2 && t.Args[1].String() == account {
		return t.Args[0].Mentions(func(x *Term) bool {
			if x.Op == "call" && strings.HasSuffix(x.Name, ".GetRelayers") && len(x.Args) == 3 && x.Args[2].String() == chain {
				return true
			}
			if x.Op == "invoke" && x.Name == "Get" && len(x.Args) == 2 && x.Args[1].String() == chain {
				return normalize(k.w.storePrefix(x.Args[0], 0)).Class() == "relayers"
			}
			return false
		})
	}
	return false
}
