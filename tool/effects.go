package main

import (
	"fmt"
	"go/types"
	"strconv"
	"strings"

	"golang.org/x/tools/go/ssa"
)

// Seg is one segment of a key shape: a literal or a typed hole.
type Seg struct {
	Lit  string // literal text (if Hole == "")
	Hole string // "str", "dec", "bin8", "bin16", "any"
	Term string // what fills the hole
}

type Shape []Seg

func (s Shape) String() string {
	var b strings.Builder
	for _, g := range s {
		if g.Hole == "" {
			b.WriteString(strconv.Quote(g.Lit))
		} else {
			b.WriteString("<" + g.Hole + " " + g.Term + ">")
		}
	}
	return b.String()
}

// Skeleton renders the shape without hole contents (for writer/reader agreement).
func (s Shape) Skeleton() string {
	var b strings.Builder
	for _, g := range s {
		if g.Hole == "" {
			b.WriteString(g.Lit)
		} else {
			b.WriteString("<" + g.Hole + ">")
		}
	}
	return b.String()
}

// Class is the leading literal up to the first '/' or hole.
func (s Shape) Class() string {
	var b strings.Builder
	for _, g := range s {
		if g.Hole != "" {
			if b.Len() == 0 {
				return "<" + g.Hole + ">"
			}
			break
		}
		b.WriteString(g.Lit)
	}
	c := b.String()
	if i := strings.Index(c, "/"); i >= 0 {
		c = c[:i]
	}
	return c
}

func normalize(s Shape) Shape {
	var out Shape
	for _, g := range s {
		if g.Hole == "" {
			if g.Lit == "" {
				continue
			}
			if n := len(out); n > 0 && out[n-1].Hole == "" {
				out[n-1].Lit += g.Lit
				continue
			}
		}
		out = append(out, g)
	}
	return out
}

// HoleTerms lists the terms filling the holes, in order.
func (s Shape) HoleTerms() []string {
	var out []string
	for _, g := range s {
		if g.Hole != "" {
			out = append(out, g.Term)
		}
	}
	return out
}

func unquoteConst(name string) (string, bool) {
	if strings.HasPrefix(name, "\"") {
		s, err := strconv.Unquote(name)
		if err == nil {
			return s, true
		}
	}
	return "", false
}

// ShapeOf abstractly evaluates a byte/string-valued term to a key shape.
func (w *World) ShapeOf(t *Term) Shape {
	return normalize(w.shapeOf(t, 0))
}

func (w *World) shapeOf(t *Term, depth int) Shape {
	if t == nil || depth > 12 {
		return Shape{{Hole: "any", Term: "?"}}
	}
	switch t.Op {
	case "const":
		if s, ok := unquoteConst(t.Name); ok {
			return Shape{{Lit: s}}
		}
		return Shape{{Hole: "any", Term: t.String()}}
	case "nil", "zero":
		return nil
	case "conv":
		return w.shapeOf(t.Args[0], depth+1)
	case "global":
		if it := w.globalInit(t.Name); it != nil {
			return w.shapeOf(it, depth+1)
		}
		return Shape{{Hole: "any", Term: t.String()}}
	case "bin":
		if t.Name == "+" {
			return append(w.shapeOf(t.Args[0], depth+1), w.shapeOf(t.Args[1], depth+1)...)
		}
	case "make":
		if len(t.Args) == 1 && t.Args[0].Op == "const" {
			return Shape{{Hole: "bin" + t.Args[0].Name, Term: "make"}}
		}
	case "call":
		switch t.Name {
		case "fmt.Sprintf":
			if len(t.Args) >= 1 {
				if f, ok := constOf(t.Args[0]); ok {
					var args []*Term
					if len(t.Args) > 1 && t.Args[1].Op == "arr" {
						args = t.Args[1].Args
					}
					return w.sprintfShape(f, args, depth)
				}
			}
		case "builtin.append":
			var s Shape
			for _, a := range t.Args {
				s = append(s, w.shapeOf(a, depth+1)...)
			}
			return s
		case "github.com/cosmos/cosmos-sdk/types.Uint64ToBigEndian":
			return Shape{{Hole: "bin8", Term: t.Args[0].String()}}
		case "strings.Join":
		}
	case "arr":
		// []byte{0x01, ...}: literal bytes
		var b []byte
		for _, a := range t.Args {
			if a.Op != "const" {
				b = nil
				break
			}
			n, err := strconv.Atoi(a.Name)
			if err != nil || n < 0 || n > 255 {
				b = nil
				break
			}
			b = append(b, byte(n))
		}
		if b != nil {
			return Shape{{Lit: string(b)}}
		}
	case "slice":
		// x[lo:hi] of a shaped value: unknown sub-range
		return Shape{{Hole: "any", Term: t.String()}}
	}
	kind := "str"
	return Shape{{Hole: kind, Term: t.String()}}
}

func constOf(t *Term) (string, bool) {
	if t.Op == "const" {
		return unquoteConst(t.Name)
	}
	return "", false
}

func (w *World) sprintfShape(f string, args []*Term, depth int) Shape {
	var s Shape
	ai := 0
	for i := 0; i < len(f); i++ {
		if f[i] != '%' {
			s = append(s, Seg{Lit: string(f[i])})
			continue
		}
		i++
		if i >= len(f) {
			break
		}
		if f[i] == '%' {
			s = append(s, Seg{Lit: "%"})
			continue
		}
		var arg *Term
		if ai < len(args) {
			arg = args[ai]
		}
		ai++
		switch f[i] {
		case 's', 'v':
			if arg != nil {
				sub := w.shapeOf(arg, depth+1)
				// a non-string argument printed with %s/%v (e.g. a Height) is a formatted hole
				s = append(s, sub...)
			} else {
				s = append(s, Seg{Hole: "any", Term: "?"})
			}
		case 'd':
			tt := "?"
			if arg != nil {
				tt = arg.String()
			}
			s = append(s, Seg{Hole: "dec", Term: tt})
		default:
			tt := "?"
			if arg != nil {
				tt = arg.String()
			}
			s = append(s, Seg{Hole: "any", Term: tt})
		}
	}
	return s
}

// globalInit returns the term stored into a package-level variable by its package
// initialiser, provided nothing else in the loaded program stores to it.
func (w *World) globalInit(name string) *Term {
	i := strings.LastIndex(name, ".")
	if i < 0 {
		return nil
	}
	pkgShort, vname := name[:i], name[i+1:]
	for path, sp := range w.SSA {
		if shortPath(path) != pkgShort {
			continue
		}
		g, ok := sp.Members[vname].(*ssa.Global)
		if !ok {
			return nil
		}
		var stores []*ssa.Store
		var owner *ssa.Function
		for _, fn := range w.allFuncsOf(sp) {
			for _, b := range fn.Blocks {
				for _, in := range b.Instrs {
					if st, ok := in.(*ssa.Store); ok && st.Addr == g {
						stores = append(stores, st)
						owner = fn
					}
				}
			}
		}
		if len(stores) != 1 || owner == nil || owner.Name() != "init" {
			return nil
		}
		return NewTermer(w, owner).Of(stores[0].Val)
	}
	return nil
}

func (w *World) allFuncsOf(sp *ssa.Package) []*ssa.Function {
	var out []*ssa.Function
	for _, fn := range w.Funcs {
		if fn.Pkg == sp {
			out = append(out, fn)
		}
	}
	if init := sp.Func("init"); init != nil {
		out = append(out, init)
	}
	return out
}

// ---- KV store operations --------------------------------------------------------------

type StoreOp struct {
	Fn    *ssa.Function
	Instr ssa.CallInstruction
	Op    string // Get Has Set Delete Iterate
	Store *Term
	Key   *Term
	Val   *Term
	Shape Shape // prefix of the store + key
}

func (o StoreOp) Class() string { return o.Shape.Class() }

func isKVStoreType(t types.Type) bool {
	ms := types.NewMethodSet(t)
	if ms.Len() == 0 {
		ms = types.NewMethodSet(types.NewPointer(t))
	}
	need := []string{"Get", "Has", "Set", "Delete", "Iterator", "ReverseIterator"}
	for _, n := range need {
		found := false
		for i := 0; i < ms.Len(); i++ {
			if ms.At(i).Obj().Name() == n {
				found = true
				break
			}
		}
		if !found {
			return false
		}
	}
	return true
}

var kvOps = map[string]string{"Get": "Get", "Has": "Has", "Set": "Set", "Delete": "Delete", "Iterator": "Iterate", "ReverseIterator": "Iterate"}

// StoreOps returns the direct KV-store operations of fn.
func (w *World) StoreOps(fi *FnInfo) []StoreOp {
	var out []StoreOp
	for _, b := range fi.Fn.Blocks {
		for _, in := range b.Instrs {
			ci, ok := in.(ssa.CallInstruction)
			if !ok {
				continue
			}
			c := ci.Common()
			var recv ssa.Value
			var name string
			if c.IsInvoke() {
				recv, name = c.Value, c.Method.Name()
			} else if fn := c.StaticCallee(); fn != nil {
				full := funcName(fn)
				if full == "cosmossdk.io/store/types.KVStorePrefixIterator" || full == "cosmossdk.io/store/types.KVStoreReversePrefixIterator" {
					st := fi.T.Of(c.Args[0])
					key := fi.T.Of(c.Args[1])
					op := StoreOp{Fn: fi.Fn, Instr: ci, Op: "Iterate", Store: st, Key: key}
					op.Shape = normalize(append(w.storePrefix(st, 0), w.shapeOf(key, 0)...))
					out = append(out, op)
					continue
				}
				if fn.Signature.Recv() == nil || len(c.Args) == 0 {
					continue
				}
				recv, name = c.Args[0], fn.Name()
			} else {
				continue
			}
			opName, ok := kvOps[name]
			if !ok {
				continue
			}
			if !isKVStoreType(recv.Type()) {
				continue
			}
			args := CallArgs(c)
			st := fi.T.Of(recv)
			op := StoreOp{Fn: fi.Fn, Instr: ci, Op: opName, Store: st}
			if len(args) > 0 {
				op.Key = fi.T.Of(args[0])
			}
			if opName == "Set" && len(args) > 1 {
				op.Val = fi.T.Of(args[1])
			}
			var ks Shape
			if op.Key != nil {
				ks = w.shapeOf(op.Key, 0)
			}
			op.Shape = normalize(append(w.storePrefix(st, 0), ks...))
			out = append(out, op)
		}
	}
	return out
}

// storePrefix evaluates the key prefix implied by a store term.
func (w *World) storePrefix(st *Term, depth int) Shape {
	if st == nil || depth > 6 {
		return Shape{{Hole: "any", Term: "store?"}}
	}
	switch st.Op {
	case "call":
		switch st.Name {
		case "(github.com/cosmos/cosmos-sdk/types.Context).KVStore":
			return nil
		case "cosmossdk.io/store/prefix.NewStore":
			return append(w.storePrefix(st.Args[0], depth+1), w.shapeOf(st.Args[1], 0)...)
		}
		// wrapper returning a store (multi-block, not inlined): try to resolve by name
		if strings.HasSuffix(st.Name, ".ClientStore") {
			return w.clientStorePrefix(st.Args[len(st.Args)-1])
		}
	case "invoke":
		if st.Name == "ClientStore" {
			return w.clientStorePrefix(st.Args[len(st.Args)-1])
		}
		if st.Name == "KVStore" {
			return nil
		}
	case "param", "fv":
		return Shape{{Hole: "store", Term: st.String()}}
	case "phi":
		return Shape{{Hole: "store", Term: st.String()}}
	}
	return Shape{{Hole: "store", Term: st.String()}}
}

// clientStorePrefix derives the prefix of ClientKeeper.ClientStore(ctx, chain) from the
// repository's own implementation.
func (w *World) clientStorePrefix(chain *Term) Shape {
	fn := w.Method(pClientKeeper, "Keeper", "ClientStore")
	if fn == nil || len(fn.Blocks) != 1 {
		return Shape{{Hole: "store", Term: "ClientStore(" + chain.String() + ")"}}
	}
	env := map[*ssa.Parameter]*Term{}
	if len(fn.Params) >= 3 {
		env[fn.Params[2]] = chain
	}
	tm := &Termer{w: w, fn: fn, env: env, visited: map[ssa.Value]bool{}, cache: map[ssa.Value]*Term{}, Inline: true}
	for _, in := range fn.Blocks[0].Instrs {
		if r, ok := in.(*ssa.Return); ok && len(r.Results) == 1 {
			return w.storePrefix(tm.Of(r.Results[0]), 1)
		}
	}
	return Shape{{Hole: "store", Term: "ClientStore"}}
}

func (o StoreOp) String() string {
	return fmt.Sprintf("%s %s", o.Op, o.Shape)
}
