package main

import (
	"go/types"
	"strings"

	"golang.org/x/tools/go/ssa"
)

// Shared rules added after the second round of seeded changes.

// fromTableRule: the chain whose light client verifies a packet / acknowledgement (and the
// peer required for writing an acknowledgement) is chosen by the one table
//
//	this chain is the packet's endpoint and the packet names a relay chain  -> relay chain
//	otherwise                                                               -> the far end
//
// with no other alternative (no fallback when a client is missing).
func (k *K) fromTableRule(id string) {
	for _, t := range []struct {
		name     string
		endpoint func(pktTerms) string
	}{
		{"RecvPacket", func(p pktTerms) string { return p.dst }},
		{"AcknowledgePacket", func(p pktTerms) string { return p.src }},
		{"WriteAcknowledgement", func(p pktTerms) string { return p.dst }},
	} {
		fi := k.method(pPacketKeeper, "Keeper", t.name)
		if fi == nil {
			continue
		}
		p := paramByType(fi.Fn, "exported.PacketI")
		if p == nil {
			k.r.Undecided(id+"/"+t.name, "GUARD-DOM", fnShort(fi), k.w.Pos(fi.Fn.Pos()), "packet parameter not identified")
			continue
		}
		pk := ifacePkt(p)
		k.selectionGate(id, fi, pk, t.endpoint(pk))
		// the client that is looked up is the selected chain itself: the argument of every
		// GetClientState is the selection, a packet getter or this chain's name, never the
		// result of another lookup (a fallback such as "use the far end if the relay chain has
		// no client here" would let a relayer replace the relay chain by an unknown name)
		for _, c := range callsNamed(fi, "GetClientState") {
			a := CallArgs(&c.Call)
			if len(a) < 2 {
				continue
			}
			t := fi.T.Of(a[len(a)-1])
			okArg := true
			var walk func(x *Term)
			walk = func(x *Term) {
				switch x.Op {
				case "phi":
					for _, e := range x.Args {
						walk(e)
					}
				case "invoke":
					if !strings.HasPrefix(x.Name, "Get") || len(x.Args) == 0 || x.Args[0].String() != p.String() {
						okArg = false
					}
				default:
					if !k.isChainName(x) {
						okArg = false
					}
				}
			}
			walk(t)
			k.r.Check(okArg, id+".lookup/"+fi.Fn.Name(), "BIND", fnShort(fi), fi.InstrPos(c), "client looked up for a chain named by the packet", "GetClientState is called for "+clip(t.String())+", which is not simply a chain named by the packet: the verifying client can differ from the one the sender's route determines")
		}
	}
}

// appNoRelayRule: the transfer applications never look at the packet's relay-chain field,
// so what they do for a relayed packet is what they do for a direct one.
func (k *K) appNoRelayRule(id string) {
	n := 0
	for _, fn := range k.w.Funcs {
		if !k.w.IsProd(fn) || fn.Pkg == nil {
			continue
		}
		pp := fn.Pkg.Pkg.Path()
		isApp := false
		for _, app := range apps {
			if pp == app.keeperPkg || pp == app.modPkg || pp == app.typesPkg {
				isApp = true
			}
		}
		if !isApp {
			continue
		}
		n++
		for _, b := range fn.Blocks {
			for _, in := range b.Instrs {
				what := ""
				switch x := in.(type) {
				case *ssa.Field:
					if isPacketRelayField(x.X.Type(), x.Field) {
						what = "reads Packet.RelayChain"
					}
				case *ssa.FieldAddr:
					if isPacketRelayField(x.X.Type(), x.Field) {
						what = "reads Packet.RelayChain"
					}
				case ssa.CallInstruction:
					c := x.Common()
					if methodCall(c, "GetRelayChain") {
						what = "calls GetRelayChain()"
					}
				}
				if what != "" {
					k.r.Violate(id+"/"+funcName(fn), "FORBIDDEN-REACH", funcName(fn), k.w.Pos(in.Pos()), "the application "+what+": its effects for a packet that travels through a relay chain differ from those of a direct transfer")
				}
			}
		}
	}
	k.r.Check(n >= 20, id+"/scanned", "FORBIDDEN-REACH", "transfer applications", "-", "no application function reads the packet's relay chain", "too few application functions scanned")
}

func isPacketRelayField(t types.Type, idx int) bool {
	if p, ok := t.Underlying().(*types.Pointer); ok {
		t = p.Elem()
	}
	named, ok := t.(*types.Named)
	if !ok || named.Obj().Pkg() == nil || named.Obj().Pkg().Path() != pPacketTypes || named.Obj().Name() != "Packet" {
		return false
	}
	st, ok := named.Underlying().(*types.Struct)
	return ok && idx < st.NumFields() && st.Field(idx).Name() == "RelayChain"
}

// ctxRule: a Msg handler works on the context of the message. It does not branch the store
// (CacheContext / CacheMultiStore) for a part of its work: with a branch, what is written on
// a path that returns success (the ErrUnauthorized -> error-acknowledgement path of
// RecvPacket) is no longer "everything the accepted steps wrote".
func (k *K) ctxRule(id string) {
	var entries []*ssa.Function
	for _, fn := range k.w.Funcs {
		if !k.w.IsProd(fn) || fn.Parent() != nil {
			continue
		}
		n := funcName(fn)
		if strings.HasPrefix(n, "(core/keeper.msgServer).") || strings.HasSuffix(n, "AppModule).OnRecvPacket") || strings.HasSuffix(n, "AppModule).OnAcknowledgementPacket") ||
			n == "(apps/nft_transfer/keeper.Keeper).NftTransfer" || n == "(apps/mt_transfer/keeper.Keeper).MtTransfer" {
			entries = append(entries, fn)
		}
	}
	if k.r.BrokenIf(len(entries) < 10, "only %d message entry points found", len(entries)) {
		return
	}
	// the SDK still offers the branching API this rule looks for (otherwise the rule is blind)
	hasAPI := false
	if p := k.w.TypesPkg("github.com/cosmos/cosmos-sdk/types"); p != nil {
		if o := p.Scope().Lookup("Context"); o != nil {
			ms := types.NewMethodSet(o.Type())
			for i := 0; i < ms.Len(); i++ {
				if ms.At(i).Obj().Name() == "CacheContext" {
					hasAPI = true
				}
			}
		}
	}
	if k.r.BrokenIf(!hasAPI, "sdk.Context has no CacheContext method: the branching API the rule looks for changed") {
		return
	}
	seen := map[*ssa.Function]bool{}
	nf := 0
	for _, e := range entries {
		for _, fn := range k.cg.Reachable(e) {
			if seen[fn] || !k.w.IsProd(fn) {
				continue
			}
			seen[fn] = true
			nf++
			for _, b := range fn.Blocks {
				for _, in := range b.Instrs {
					ci, ok := in.(ssa.CallInstruction)
					if !ok {
						continue
					}
					c := ci.Common()
					name := ""
					if callee := c.StaticCallee(); callee != nil {
						name = callee.Name()
					} else if c.IsInvoke() {
						name = c.Method.Name()
					}
					switch name {
					case "CacheContext", "CacheMultiStore", "CacheWrap", "CacheMultiStoreWithVersion", "WithMultiStore":
						k.r.Violate(id+"/"+funcName(fn)+":"+name, "FORBIDDEN-REACH", funcName(fn), k.w.Pos(in.Pos()), "message handling branches the store with "+name+": writes made on the branch and writes made on the message's own context can be committed independently of each other, so a path that ends in success may keep only a part of what the accepted steps wrote (e.g. the error acknowledgement without the receipt)")
					}
				}
			}
		}
	}
	k.r.Check(nf >= 50, id+"/scanned", "FORBIDDEN-REACH", "message handlers", "-", "no store branching in code reachable from the message handlers", "too few reachable functions scanned")
}

// sigHeaderRule (BSC): the bytes whose signature identifies the sealer are an encoding of the
// submitted header itself. Along the static calls from ecrecover down to the RLP encoder,
// every header argument is the caller's own header parameter, of the client's Header type —
// not a normalised or converted copy (fixed-size conversions crop or pad fields, so the
// signature would no longer cover the bytes that are stored).
func (k *K) sigHeaderRule(id string) {
	start := k.function(pBSC, "ecrecover")
	if start == nil {
		return
	}
	isHeaderType := func(t types.Type) (string, bool) {
		if p, ok := t.(*types.Pointer); ok {
			t = p.Elem()
		}
		n, ok := t.(*types.Named)
		if !ok || n.Obj().Pkg() == nil {
			return "", false
		}
		if _, isStruct := n.Underlying().(*types.Struct); !isStruct {
			return "", false
		}
		if strings.Contains(n.Obj().Name(), "Header") {
			return n.Obj().Pkg().Path() + "." + n.Obj().Name(), true
		}
		return "", false
	}
	want := pBSC + ".Header"
	seen := map[*ssa.Function]bool{}
	sites, encoders := 0, 0
	var walk func(fi *FnInfo, depth int)
	walk = func(fi *FnInfo, depth int) {
		if seen[fi.Fn] || depth > 4 {
			return
		}
		seen[fi.Fn] = true
		for _, b := range fi.Fn.Blocks {
			for _, in := range b.Instrs {
				c, ok := in.(*ssa.Call)
				if !ok || c.Call.IsInvoke() {
					continue
				}
				callee := c.Call.StaticCallee()
				if callee == nil {
					continue
				}
				if funcName(callee) == "github.com/ethereum/go-ethereum/rlp.Encode" {
					encoders++
					continue
				}
				if callee.Pkg == nil || callee.Pkg.Pkg.Path() != pBSC || callee.Blocks == nil {
					continue
				}
				for i, p := range callee.Params {
					tn, isH := isHeaderType(p.Type())
					if !isH || i >= len(c.Call.Args) {
						continue
					}
					sites++
					at := fi.T.Of(c.Call.Args[i])
					bare := at.Op == "param"
					k.r.Check(bare && tn == want, id+"/"+fi.Fn.Name()+"->"+callee.Name(), "BIND", fnShort(fi), fi.InstrPos(c), "the header handed on for signature hashing is the submitted header itself",
						"the value hashed for the seal signature is "+clip(at.String())+" (type "+shortPath(tn)+"), not the submitted header: the signature no longer covers the header bytes that are verified and stored")
				}
				walk(k.w.FI(callee), depth+1)
			}
		}
	}
	walk(start, 0)
	k.r.Check(sites >= 2 && encoders >= 1, id+"/chain", "BIND", fnShort(start), k.w.Pos(start.Fn.Pos()), "ecrecover -> seal hash -> RLP encoder chain found", "cannot follow the signature-hash computation from ecrecover to the RLP encoder")
}

// tmProcessedTimeRule: the Tendermint client's confirmation delay is measured from the time
// the consensus state in force at a height was processed. update() stores a (possibly new)
// consensus state for the header's height on every call, so every path through it must also
// (re)write the processed time of that height, for the header's own height, unconditionally:
// otherwise a root replaced at a tracked height inherits an old processed time and proofs
// against it pass the delay check immediately.
func (k *K) tmProcessedTimeRule(id string) {
	fi := k.function(pTM, "update")
	if fi == nil {
		return
	}
	fn := fnShort(fi)
	var sets []ssa.CallInstruction
	heightOK := map[ssa.CallInstruction]bool{}
	for _, b := range fi.Fn.Blocks {
		for _, in := range b.Instrs {
			ci, ok := in.(ssa.CallInstruction)
			if !ok {
				continue
			}
			for _, op := range k.OpsAt(fi, ci, 3) {
				s := op.Shape.String()
				if op.Op == "Set" && strings.Contains(s, "/processedTime") {
					sets = append(sets, ci)
					if strings.Contains(s, "$3.") {
						heightOK[ci] = true
					}
				}
			}
		}
	}
	isSet := func(in ssa.Instruction) bool {
		for _, c := range sets {
			if ssa.Instruction(c) == in {
				return true
			}
		}
		return false
	}
	ok, site, detail := len(sets) > 0, k.w.Pos(fi.Fn.Pos()), ""
	for _, rt := range fi.Returns() {
		if p := fi.PathAvoiding(rt.Instr, isSet); p != nil {
			ok, site, detail = false, fi.InstrPos(rt.Instr), " (path "+fi.DescribePath(p)+")"
		}
	}
	k.r.Check(ok, id+"/always", "MUST-PASS", fn, site, "every update records the processed time of the header's height", "update() can return without writing the processed time"+detail+": a consensus state stored for an already tracked height keeps the old processed time and its proofs skip the confirmation delay")
	for _, c := range sets {
		k.r.Check(heightOK[c], id+"/height", "KEY-SHAPE", fn, fi.InstrPos(c), "processed time written for the header's own height", "the processed time is not written under the header's height")
	}
}
