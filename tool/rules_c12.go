package main

import (
	"fmt"
	"net/url"
	"regexp"
	"regexp/syntax"
	"strconv"
	"strings"

	"golang.org/x/tools/go/ssa"
)

func init() {
	register("C12", propMeta{
		Explanation: "Decides from the source constants and the shape of the code: (syntax) the three rule-syntax regular expressions (routing types.RulePattern, host.IsValidRule, host.IsValidID) are read from the source, must be anchored at both ends and, evaluated as constants over a witness family that is exhaustive for single-character fields over all 128 ASCII characters and covers field count (2,3,4), empty fields, '*' mixed with other characters and the 64/65 length boundary, accept exactly 'three comma-separated fields, each 1-64 characters of the permitted alphabet or a single *'; SetRoutingRules, GenesisState.Validate and RoutingRulesValidator reject (fail-only edge) every rule not matching that pattern before anything is stored; (matching) the text that reaches regexp.MatchString as pattern in Authenticate is the stored rule passed through a converter that is extracted from the SSA term (constants, concatenation, strings.Replace/ReplaceAll, regexp.QuoteMeta) and evaluated on every character of the permitted alphabet (tripled, to expose bounded replace counts): the image must parse (regexp/syntax) to the literal character itself, '*' to 'any run of characters', and the whole pattern must be anchored with ^ and $; the subject is source+\",\"+dest+\",\"+port of the function's own parameters; Authenticate returns false when no rules are stored and true only as the result of a match. For this property the structural conditions are essentially the whole matter; Every accepted SetRoutingRules writes the rule table (no success path that leaves the previous table in force). NOT decided: behaviour of Go's regexp engine itself.",
		Assumptions: []string{"Go's regexp and regexp/syntax implement RE2 semantics"},
		Trusted:     commonTrusted,
	}, ruleC12)
}

// the identifier alphabet the property names: letters, digits and . _ + - # [ ] < >
func c12Alphabet() []byte {
	var out []byte
	for c := byte('a'); c <= 'z'; c++ {
		out = append(out, c)
	}
	for c := byte('A'); c <= 'Z'; c++ {
		out = append(out, c)
	}
	for c := byte('0'); c <= '9'; c++ {
		out = append(out, c)
	}
	out = append(out, []byte("._+-#[]<>")...)
	return out
}

func inAlphabet(c byte) bool {
	for _, a := range c12Alphabet() {
		if a == c {
			return true
		}
	}
	return false
}

// constStrings collects the string constants occurring in a term.
func constStrings(t *Term) []string {
	var out []string
	t.Walk(func(x *Term) {
		if x.Op == "const" {
			if s, ok := unquoteConst(x.Name); ok {
				out = append(out, s)
			}
		}
	})
	return out
}

// evalStringTerm evaluates a pure string-valued term with `input` substituted for the
// subterm whose String() equals inputKey. ok=false when an unsupported operation occurs.
func evalStringTerm(t *Term, inputKey, input string) (string, bool) {
	if t.String() == inputKey {
		return input, true
	}
	switch t.Op {
	case "const":
		s, ok := unquoteConst(t.Name)
		return s, ok
	case "conv":
		return evalStringTerm(t.Args[0], inputKey, input)
	case "bin":
		if t.Name == "+" {
			a, ok1 := evalStringTerm(t.Args[0], inputKey, input)
			b, ok2 := evalStringTerm(t.Args[1], inputKey, input)
			return a + b, ok1 && ok2
		}
	case "extract":
		// first result of a pure library function that also returns an error: the value when
		// the error is nil; an input the function rejects makes the evaluation undefined
		if t.Name == "0" && len(t.Args) == 1 && t.Args[0].Op == "call" && len(t.Args[0].Args) == 1 {
			s, ok := evalStringTerm(t.Args[0].Args[0], inputKey, input)
			if !ok {
				return "", false
			}
			switch t.Args[0].Name {
			case "net/url.PathUnescape":
				out, err := url.PathUnescape(s)
				return out, err == nil
			case "net/url.QueryUnescape":
				out, err := url.QueryUnescape(s)
				return out, err == nil
			}
		}
	case "call":
		switch t.Name {
		case "net/url.PathEscape":
			if len(t.Args) == 1 {
				s, ok := evalStringTerm(t.Args[0], inputKey, input)
				return url.PathEscape(s), ok
			}
		case "net/url.QueryEscape":
			if len(t.Args) == 1 {
				s, ok := evalStringTerm(t.Args[0], inputKey, input)
				return url.QueryEscape(s), ok
			}
		case "strings.Replace":
			if len(t.Args) == 4 {
				s, ok1 := evalStringTerm(t.Args[0], inputKey, input)
				o, ok2 := evalStringTerm(t.Args[1], inputKey, input)
				n, ok3 := evalStringTerm(t.Args[2], inputKey, input)
				cnt := 0
				ok4 := false
				if t.Args[3].Op == "const" {
					if v, err := strconv.Atoi(t.Args[3].Name); err == nil {
						cnt, ok4 = v, true
					}
				}
				if ok1 && ok2 && ok3 && ok4 {
					return strings.Replace(s, o, n, cnt), true
				}
			}
		case "strings.ReplaceAll":
			if len(t.Args) == 3 {
				s, ok1 := evalStringTerm(t.Args[0], inputKey, input)
				o, ok2 := evalStringTerm(t.Args[1], inputKey, input)
				n, ok3 := evalStringTerm(t.Args[2], inputKey, input)
				if ok1 && ok2 && ok3 {
					return strings.ReplaceAll(s, o, n), true
				}
			}
		case "regexp.QuoteMeta":
			if len(t.Args) == 1 {
				s, ok := evalStringTerm(t.Args[0], inputKey, input)
				return regexp.QuoteMeta(s), ok
			}
		}
	}
	return "", false
}

// ruleLanguageWitnesses checks one rule-syntax pattern against the witness family.
func ruleLanguageProblems(pat string) []string {
	var probs []string
	re, err := regexp.Compile(pat)
	if err != nil {
		return []string{"pattern does not compile: " + err.Error()}
	}
	if !strings.HasPrefix(pat, "^") || !strings.HasSuffix(pat, "$") {
		probs = append(probs, "pattern is not anchored with ^ and $")
	}
	expect := func(s string, want bool, why string) {
		if re.MatchString(s) != want {
			probs = append(probs, fmt.Sprintf("%q is %s but must be %s (%s)", s, acc(!want), acc(want), why))
		}
	}
	for c := 0; c < 128; c++ {
		ch := string(rune(c))
		ok := inAlphabet(byte(c)) || ch == "*"
		expect(ch+",b,c", ok, "single-character first field")
		expect("a,"+ch+",c", ok, "single-character second field")
		expect("a,b,"+ch, ok, "single-character third field")
	}
	expect("a,b,c", true, "three identifiers")
	expect("*,*,*", true, "three wildcards")
	expect("a,b", false, "two fields")
	expect("a,b,c,d", false, "four fields")
	expect("", false, "empty")
	expect(",,", false, "empty fields")
	expect("a,,c", false, "empty middle field")
	expect("**,b,c", false, "double wildcard")
	expect("a*,b,c", false, "wildcard mixed with characters")
	expect("*a,b,c", false, "wildcard mixed with characters")
	expect("a,b,c\n", false, "trailing newline")
	expect("x\na,b,c", false, "leading line")
	expect(strings.Repeat("a", 64)+",b,c", true, "64-character field")
	expect(strings.Repeat("a", 65)+",b,c", false, "65-character field")
	expect("a,b,"+strings.Repeat("z", 64), true, "64-character last field")
	expect("a,b,"+strings.Repeat("z", 65), false, "65-character last field")
	expect("a b,c,d", false, "space")
	if len(probs) > 6 {
		probs = append(probs[:6], fmt.Sprintf("... and %d more", len(probs)-6))
	}
	return probs
}

func acc(b bool) string {
	if b {
		return "accepted"
	}
	return "rejected"
}

func ruleC12(w *World, r *Report) {
	k := newK(w, r)

	// ---- (1) the syntax constants
	pats := map[string]string{}
	if p := w.ByPath[pRoutingTypes]; p != nil {
		if c := p.Types.Scope().Lookup("RulePattern"); c != nil {
			if cc, ok := c.(interface {
				Val() interface{ String() string }
			}); ok {
				_ = cc
			}
		}
	}
	// read through the SSA constant / initialiser terms
	if sp := w.SSA[pRoutingTypes]; sp != nil {
		if nc, ok := sp.Members["RulePattern"].(*ssa.NamedConst); ok && nc.Value != nil && nc.Value.Value != nil {
			if s, err := strconv.Unquote(nc.Value.Value.ExactString()); err == nil {
				pats["routing/types.RulePattern"] = s
			}
		}
	}
	for _, g := range []string{"IsValidRule", "IsValidID"} {
		if it := w.globalInit(shortPath(pHost) + "." + g); it != nil {
			for _, s := range constStrings(it) {
				if strings.HasPrefix(s, "^") || strings.Contains(s, "[") {
					pats["host."+g] = s
				}
			}
		}
	}
	for _, name := range []string{"routing/types.RulePattern", "host.IsValidRule"} {
		pat, ok := pats[name]
		if !ok {
			r.Undecided("C12.syntax.lang/"+name, "CONST-EVAL", name, "-", "cannot read the pattern constant from the source")
			continue
		}
		probs := ruleLanguageProblems(pat)
		r.Check(len(probs) == 0, "C12.syntax.lang/"+name, "CONST-EVAL", name, "-", "anchored; accepts exactly three comma-separated fields of 1-64 permitted characters or a single *", strings.Join(probs, "; "))
	}
	if pat, ok := pats["host.IsValidID"]; ok {
		var probs []string
		if re, err := regexp.Compile(pat); err != nil {
			probs = append(probs, "does not compile")
		} else {
			for c := 0; c < 128; c++ {
				if re.MatchString(string(rune(c))) != inAlphabet(byte(c)) {
					probs = append(probs, fmt.Sprintf("character %q: identifier pattern says %v, permitted alphabet says %v", rune(c), re.MatchString(string(rune(c))), inAlphabet(byte(c))))
				}
			}
			if !strings.HasPrefix(pat, "^") || !strings.HasSuffix(pat, "$") {
				probs = append(probs, "not anchored")
			}
		}
		if len(probs) > 5 {
			probs = probs[:5]
		}
		r.Check(len(probs) == 0, "C12.syntax.lang/host.IsValidID", "CONST-EVAL", "host.IsValidID", "-", "identifier alphabet equals the rule-field alphabet", strings.Join(probs, "; "))
	} else {
		r.Undecided("C12.syntax.lang/host.IsValidID", "CONST-EVAL", "host.IsValidID", "-", "cannot read the pattern constant from the source")
	}

	// ---- (2) rule syntax enforced before storing
	rulePat := pats["routing/types.RulePattern"]
	for _, t := range []struct {
		pkg, typ, name string
		subjectHas     string
	}{
		{pRoutingKeeper, "Keeper", "SetRoutingRules", "$2"},
		{pRoutingTypes, "GenesisState", "Validate", "$0"},
	} {
		fi := k.method(t.pkg, t.typ, t.name)
		if fi == nil {
			continue
		}
		fn := fnShort(fi)
		// isMatch: "an element of the submitted list matches RulePattern"
		isMatch := func(f Fact) bool {
			if f.Op != "true" {
				return false
			}
			x := f.L
			if x.Op != "extract" || x.Name != "0" || x.Args[0].Op != "call" || x.Args[0].Name != "regexp.MatchString" {
				return false
			}
			call := x.Args[0]
			ps, _ := constOf(call.Args[0])
			return ps == rulePat && call.Args[1].Contains(t.subjectHas) && (call.Args[1].Op == "index" || strings.Contains(call.Args[1].String(), "["))
		}
		found := false
		// the check may sit in the function itself or in a same-package helper it calls;
		// the branch may test MatchString directly or a boolean helper that implies it
		for _, sc := range k.scopes(fi, 1) {
			for _, f := range sc.Fi.facts {
				if f.Op != "true" {
					continue
				}
				hit := isMatch(f)
				if !hit {
					for _, g := range sc.Fi.impliedFacts([]Fact{f}) {
						if isMatch(g) {
							hit = true
						}
					}
				}
				if !hit {
					continue
				}
				// the edge on which the rule does NOT match leads only to failure ...
				if !failsOnly(sc.Fi, f.If.Block().Succs[1-f.Succ]) {
					continue
				}
				// ... and a failure of the helper is a failure of the function
				if oc, ok := sc.Outer.(*ssa.Call); sc.Outer != nil {
					if !ok {
						continue
					}
					prop := true
					for _, rt := range fi.Returns() {
						if rt.Kind != RetFail && !fi.ErrNilDominates(oc, rt.Instr.Block()) {
							prop = false
						}
					}
					if !prop {
						continue
					}
				}
				found = true
			}
		}
		r.Check(found, "C12.syntax.dom/"+t.name, "GUARD-DOM", fn, w.Pos(fi.Fn.Pos()), "a rule not matching RulePattern leads only to failure", "no fail-only branch on regexp.MatchString(RulePattern, rule) for each element of the submitted rule list")
		if t.name == "SetRoutingRules" {
			for _, op := range k.cg.Ops(fi.Fn) {
				if op.Op == "Set" {
					okv := op.Val != nil && op.Val.Contains("$2") && strings.Contains(op.Val.String(), "encoding/json.Marshal($2)")
					r.Check(okv, "C12.syntax.dom/stored", "BIND", fn, w.Pos(op.Instr.Pos()), "the stored value is the marshalled validated rule list", "the stored value "+clip(fmt.Sprint(op.Val))+" is not the marshalled rule list that was validated")
				}
			}
		}
	}
	if fi := k.function(pHost, "defaultRuleValidator"); fi != nil {
		found := false
		for _, f := range fi.facts {
			if (f.Op == "false" || f.Op == "true") && strings.Contains(f.L.String(), "IsValidRule") && f.L.Contains("$0") {
				succ := f.Succ
				if f.Op == "true" {
					succ = 1 - f.Succ
				}
				if failsOnly(fi, f.If.Block().Succs[succ]) {
					found = true
				}
			}
		}
		r.Check(found, "C12.syntax.dom/defaultRuleValidator", "GUARD-DOM", fnShort(fi), w.Pos(fi.Fn.Pos()), "a rule not matching IsValidRule leads only to failure", "defaultRuleValidator does not fail on !IsValidRule(rule)")
	}

	k.authenticateRule("C12.")
	k.routingStoreRule("C12.store")
	r.MinInstances("C12.", 12)
}

// authenticateRule: Authenticate matches (source,dest,port) against each stored rule exactly
// field-wise. Used by C12 (the matching semantics) and by C11 (the relay whitelist is only
// enforced if matching is exact).
func (k *K) authenticateRule(pfx string) {
	w, r := k.w, k.r
	// ---- (3) matching
	fi := k.method(pRoutingKeeper, "Keeper", "Authenticate")
	if fi == nil {
		return
	}
	fn := fnShort(fi)
	var matches []*ssa.Call
	for _, b := range fi.Fn.Blocks {
		for _, in := range b.Instrs {
			if c, ok := in.(*ssa.Call); ok {
				if f := c.Call.StaticCallee(); f != nil && strings.HasPrefix(funcName(f), "regexp.") {
					matches = append(matches, c)
				}
			}
		}
	}
	if len(matches) == 0 {
		r.Undecided(pfx+"match/converter", "CONST-EVAL", fn, w.Pos(fi.Fn.Pos()), "Authenticate uses no regexp call; field-wise matching is not an idiom this rule can decide")
	}
	for _, m := range matches {
		name := funcName(m.Call.StaticCallee())
		site := fi.InstrPos(m)
		if name != "regexp.MatchString" {
			r.Undecided(pfx+"match/converter", "CONST-EVAL", fn, site, "unrecognised regexp use "+name)
			continue
		}
		pat, subj := fi.T.Of(m.Call.Args[0]), fi.T.Of(m.Call.Args[1])
		// subject = source "," dest "," port of the parameters, in order
		sh := w.ShapeOf(subj)
		wantSubj := `<str $2>","<str $3>","<str $4>`
		r.Check(sh.String() == wantSubj, pfx+"match/subject", "BIND", fn, site, "subject = source,dest,port", "subject is "+sh.String()+", expected "+wantSubj)
		// locate the rule element inside the pattern term
		var ruleKey string
		pat.Walk(func(x *Term) {
			if x.Op == "index" && ruleKey == "" && strings.Contains(x.String(), "GetRoutingRules") {
				ruleKey = x.String()
			}
		})
		if ruleKey == "" {
			r.Undecided(pfx+"match/converter", "CONST-EVAL", fn, site, "cannot find the stored rule inside the pattern expression "+clip(pat.String()))
			continue
		}
		var probs []string
		undecided := false
		for _, c := range append(c12Alphabet(), '*') {
			in := strings.Repeat(string(c), 3)
			out, ok := evalStringTerm(pat, ruleKey, in)
			if !ok {
				undecided = true
				break
			}
			if !strings.HasPrefix(out, "^") || !strings.HasSuffix(out, "$") || strings.HasSuffix(out, `\$`) {
				probs = append(probs, fmt.Sprintf("pattern for rule text %q is %q: not anchored at both ends", in, out))
				continue
			}
			body := out[1 : len(out)-1]
			re, err := syntax.Parse(body, syntax.Perl)
			if err != nil {
				probs = append(probs, fmt.Sprintf("rule text %q becomes %q which is not a valid pattern (%v)", in, out, err))
				continue
			}
			re = re.Simplify()
			if c == '*' {
				if !isAnyRun(re) {
					probs = append(probs, fmt.Sprintf("wildcards %q become %q which is not 'any run of characters'", in, body))
				}
				continue
			}
			if !(re.Op == syntax.OpLiteral && string(re.Rune) == in) {
				probs = append(probs, fmt.Sprintf("character %q of the permitted alphabet is not matched literally: rule text %q becomes pattern %q", string(c), in, body))
			}
		}
		if undecided {
			r.Undecided(pfx+"match/converter", "CONST-EVAL", fn, site, "the rule-to-pattern converter uses an operation this rule cannot evaluate: "+clip(pat.String()))
			continue
		}
		if len(probs) > 4 {
			probs = append(probs[:4], fmt.Sprintf("... and %d more characters", len(probs)-4))
		}
		r.Check(len(probs) == 0, pfx+"match/converter", "CONST-EVAL", fn, site, "every permitted character matches literally, * matches any run, pattern anchored", strings.Join(probs, "; "))
		// a mixed witness
		if out, ok := evalStringTerm(pat, ruleKey, "a.b,*,c+d"); ok {
			re, err := regexp.Compile(out)
			good := err == nil && re.MatchString("a.b,anything,c+d") && !re.MatchString("aXb,anything,c+d") && !re.MatchString("a.b,x,c+d2") && !re.MatchString("za.b,x,c+d") && !re.MatchString("a.b,x,cd")
			r.Check(good, pfx+"match/witness", "CONST-EVAL", fn, site, "witness rule a.b,*,c+d matches exactly field-wise", fmt.Sprintf("witness rule \"a.b,*,c+d\" becomes %q which does not match field-wise (err=%v)", out, err))
		}
	}

	// ---- (4) result discipline
	var matchTerms []string
	for _, m := range matches {
		matchTerms = append(matchTerms, fi.T.Of(m).String()+"#0")
	}
	for _, rt := range fi.Returns() {
		v := fi.T.Of(RetVal(rt.Instr, 0))
		var leaves []*Term
		var flat func(t *Term)
		flat = func(t *Term) {
			if t.Op == "phi" {
				for _, a := range t.Args {
					flat(a)
				}
				return
			}
			if t.Op == "loop" {
				return
			}
			leaves = append(leaves, t)
		}
		flat(v)
		ok := true
		for _, l := range leaves {
			s := l.String()
			if s == "const(false)" {
				continue
			}
			if s == "const(true)" {
				// "if matched { return true }": accepted when a successful match dominates
				dom := false
				for _, mt := range matchTerms {
					if fi.HasAtom(rt.Instr.Block(), mt) {
						dom = true
					}
				}
				if dom {
					continue
				}
			}
			isMatch := false
			for _, mt := range matchTerms {
				if s == mt {
					isMatch = true
				}
			}
			if !isMatch {
				ok = false
			}
		}
		r.Check(ok, pfx+"empty/result", "MUST-PASS", fn, fi.InstrPos(rt.Instr), "returns false or the result of a match", "Authenticate can return "+clip(v.String())+", which is neither false nor the result of matching a stored rule")
	}
	// not found -> false
	nf := false
	for _, rt := range fi.Returns() {
		if fi.T.Of(RetVal(rt.Instr, 0)).String() == "const(false)" && fi.HasFact(rt.Instr.Block(), func(f Fact) bool {
			return f.Op == "false" && strings.Contains(f.L.String(), "GetRoutingRules")
		}) {
			nf = true
		}
	}
	r.Check(nf, pfx+"empty/no-rules", "MUST-PASS", fn, w.Pos(fi.Fn.Pos()), "no stored rules => false", "no 'rules not found => return false' path")
}

func isAnyRun(re *syntax.Regexp) bool {
	// (.*)+ style concatenations of "any run"
	switch re.Op {
	case syntax.OpStar:
		s := re.Sub[0]
		return s.Op == syntax.OpAnyCharNotNL || s.Op == syntax.OpAnyChar || (s.Op == syntax.OpCharClass && len(s.Rune) >= 2 && runeClassSize(s.Rune) > 100)
	case syntax.OpConcat:
		for _, s := range re.Sub {
			if !isAnyRun(s) {
				return false
			}
		}
		return len(re.Sub) > 0
	}
	return false
}

func runeClassSize(r []rune) int {
	n := 0
	for i := 0; i+1 < len(r); i += 2 {
		hi := r[i+1]
		if hi > 127 {
			hi = 127
		}
		if hi >= r[i] {
			n += int(hi-r[i]) + 1
		}
	}
	return n
}
