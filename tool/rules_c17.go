package main

import (
	"fmt"
	"strings"

	"golang.org/x/tools/go/ssa"
)

func init() {
	register("C17", propMeta{
		Explanation: "Decides, on every path of the BSC client update (CheckHeaderAndUpdateState -> checkValidity -> verifyHeader -> verifyCascadingFields -> verifySeal, each success reachable only through the next one): basic validation (vanity and seal length, zero mix digest, uncle hash, non-zero difficulty); validators in the extra data exactly on epoch blocks and in multiples of 20 bytes; the header is the direct child of the client's latest header (number = latest+1 and parent hash = hash of the latest header); gas limit cap, gasUsed <= gasLimit, gas-limit change below parent/256 and at least the minimum; seal: signer recovered from the header with the client's chain id, signer == coinbase, signer is a member of the snapshot built from the client's current validators, recency refusal for a signer seen after number-(N/2+1), difficulty 2 exactly when in turn and 1 exactly when not, where 'in turn' is validators-sorted[(latest number+1) mod N] == signer; update: the pending set is written at epoch blocks from the header's extra data, it replaces the validator set exactly when number mod Epoch == len(current validators)/2, after acceptance the latest header is the header and the consensus state is {header time, height, root}; checkValidity's success dominates update; ClientKeeper.UpdateClient stores the returned client and consensus state on every accepting path; along the calls from ecrecover to the RLP encoder the header that is hashed for the seal signature is the submitted header itself (not a normalised copy). NOT decided: the 'if' direction (every valid header is accepted), signer pruning arithmetic when the set shrinks, histories with set changes.",
		Assumptions: []string{"go-ethereum crypto.Ecrecover and RLP hashing are correct"},
		Trusted:     commonTrusted,
	}, ruleC17)
}

// need: every (possibly) successful return of fi is dominated by a fact satisfying pred.
func (k *K) need(fi *FnInfo, id, okMsg, badMsg string, pred func(Fact) bool) {
	ok, ret := k.successRequires(fi, pred, 0)
	k.r.Check(ok, id, "MUST-PASS", fnShort(fi), k.w.Pos(fi.Fn.Pos()), okMsg, badMsg+" — offending return at "+retPos(fi, ret))
}

// needEither: no path to a success return avoids all edges satisfying one of preds
// (a disjunctive guard: success needs A or B).
func (k *K) needEither(fi *FnInfo, id, okMsg, badMsg string, pred func(Fact) bool) {
	bad := ""
	for _, st := range returnSites(fi, "") {
		if path := fi.PathAvoidingX(st.Instr, nil, pred); path != nil {
			bad = fi.DescribePath(path)
		}
	}
	k.r.Check(bad == "", id, "MUST-PASS", fnShort(fi), k.w.Pos(fi.Fn.Pos()), okMsg, badMsg+": "+bad)
}

// tailPasses: success of fi is reached only through a call to callee with the given argument terms.
func (k *K) tailPasses(fi *FnInfo, id, callee string, wantArgs []string) {
	var calls []*ssa.Call
	for _, b := range fi.Fn.Blocks {
		for _, in := range b.Instrs {
			if c, ok := in.(*ssa.Call); ok {
				if f := c.Call.StaticCallee(); f != nil && f.Name() == callee {
					a := termsOf(fi, c.Call.Args)
					match := len(a) == len(wantArgs)
					for i := range wantArgs {
						if match && wantArgs[i] != "" && a[i] != wantArgs[i] {
							match = false
						}
					}
					if match {
						calls = append(calls, c)
					}
				}
			}
		}
	}
	ok, ret := k.successPassesCall(fi, calls)
	k.r.Check(len(calls) > 0 && ok, id, "MUST-PASS", fnShort(fi), k.w.Pos(fi.Fn.Pos()), "success only through "+callee+"("+strings.Join(wantArgs, ",")+")", fnShort(fi)+" can succeed without "+callee+" having succeeded on the same arguments — offending return at "+retPos(fi, ret))
}

func isZeroCmp(f Fact, op string, pred func(*Term) bool) bool {
	if f.Op != op {
		return false
	}
	if f.L.String() == "const(0)" && pred(f.R) {
		return true
	}
	return f.R.String() == "const(0)" && pred(f.L)
}

func ruleC17(w *World, r *Report) {
	k := newK(w, r)
	const H = "$3.Height.RevisionHeight"
	// ---- chain of success
	if fi := k.method(pBSC, "ClientState", "CheckHeaderAndUpdateState"); fi != nil {
		var cvs []*ssa.Call
		for _, c := range fi.Calls(func(c *ssa.CallCommon) bool { f := c.StaticCallee(); return f != nil && f.Name() == "checkValidity" }) {
			if cc, ok := c.(*ssa.Call); ok {
				cvs = append(cvs, cc)
			}
		}
		sites := append(k.EffectSites(fi), returnSites(fi, "")...)
		for _, c := range fi.Calls(func(c *ssa.CallCommon) bool { f := c.StaticCallee(); return f != nil && f.Name() == "update" }) {
			sites = append(sites, Site{c, "update"})
		}
		k.requireErrNilDominates("C17.dom.validity", fi, cvs, sites, "checkValidity")
		for _, c := range cvs {
			a := termsOf(fi, c.Call.Args)
			r.Check(len(a) == 5 && a[1] == P(3).String() && a[2] == P(0).String() && strings.Contains(a[4], "assert:*types.Header($4)"), "C17.dom.validity/bind", "BIND", fnShort(fi), fi.InstrPos(c), "checkValidity(store, &clientState, submitted header)", "checkValidity receives "+clip(strings.Join(a, ", ")))
		}
		for _, c := range fi.Calls(func(c *ssa.CallCommon) bool { f := c.StaticCallee(); return f != nil && f.Name() == "update" }) {
			a := termsOf(fi, c.Common().Args)
			r.Check(len(a) == 4 && a[1] == P(3).String() && a[2] == P(0).String() && strings.Contains(a[3], "assert:*types.Header($4)"), "C17.update/bind", "BIND", fnShort(fi), fi.InstrPos(c), "update(store, &clientState, submitted header)", "update receives "+clip(strings.Join(a, ", ")))
		}
	}
	if fi := k.function(pBSC, "checkValidity"); fi != nil {
		k.tailPasses(fi, "C17.chain/checkValidity", "verifyHeader", []string{"$0", "$1", "$2", "$4"})
	}
	if fi := k.function(pBSC, "verifyHeader"); fi != nil {
		k.tailPasses(fi, "C17.chain/verifyHeader", "verifyCascadingFields", []string{"$0", "$1", "$2", "$3"})
		vb := callsNamed(fi, "ValidateBasic")
		okv, ret := k.successPassesCall(fi, vb)
		r.Check(len(vb) > 0 && okv, "C17.basic/call", "MUST-PASS", fnShort(fi), w.Pos(fi.Fn.Pos()), "success passes header.ValidateBasic()", "verifyHeader can succeed without header.ValidateBasic() — at "+retPos(fi, ret))
		isEpochTerm := func(t *Term) bool {
			return t.Op == "bin" && t.Name == "%" && t.Args[0].String() == H && t.Args[1].String() == "$2.Epoch"
		}
		extraLen := func(t *Term) bool { return strings.Contains(t.String(), "builtin.len($3.Extra)") }
		k.needEither(fi, "C17.epoch/non-epoch-has-no-validators", "a non-epoch header carries no validator bytes", "verifyHeader can succeed for a non-epoch block that carries validator bytes in its extra data", func(f Fact) bool {
			return isZeroCmp(f, "==", isEpochTerm) || isZeroCmp(f, "==", func(t *Term) bool {
				return t.Op == "bin" && t.Name == "-" && extraLen(t) && !strings.Contains(t.String(), "%")
			})
		})
		k.needEither(fi, "C17.epoch/validators-multiple-of-20", "an epoch header's validator bytes are a multiple of the address length", "verifyHeader can succeed for an epoch block whose validator bytes are not a multiple of 20", func(f Fact) bool {
			return isZeroCmp(f, "!=", isEpochTerm) || isZeroCmp(f, "==", func(t *Term) bool {
				return t.Op == "bin" && t.Name == "%" && extraLen(t) && t.Args[1].String() == "const(20)"
			})
		})
	}
	if fi := k.function(pBSC, "verifyCascadingFields"); fi != nil {
		k.tailPasses(fi, "C17.chain/verifyCascadingFields", "verifySeal", []string{"$0", "$1", "$2", "$3"})
		k.need(fi, "C17.parent/number", "success requires latest.number == header.number - 1", "a header that is not numbered latest+1 can be accepted", func(f Fact) bool {
			if f.Op != "==" {
				return false
			}
			a, b := f.L.String(), f.R.String()
			x, y := "$2.Header.Height.RevisionHeight", "("+H+" - const(1))"
			return (a == x && b == y) || (a == y && b == x)
		})
		k.need(fi, "C17.parent/hash", "success requires hash(latest header) == header.ParentHash", "a header whose parent hash is not the hash of the client's latest header can be accepted", func(f Fact) bool {
			if f.Op != "==" {
				return false
			}
			a, b := f.L.String(), f.R.String()
			ph := "github.com/ethereum/go-ethereum/common.BytesToHash($3.ParentHash)"
			isParentHash := func(s string) bool { return strings.Contains(s, "rlpHash(") && strings.Contains(s, "$2.Header") }
			return (a == ph && isParentHash(b)) || (b == ph && isParentHash(a))
		})
		k.need(fi, "C17.gas/cap", "success requires gasLimit <= 2^63-1", "the gas limit cap is not enforced", func(f Fact) bool {
			return f.Op == "<=" && f.L.String() == "$3.GasLimit" && f.R.String() == "const(9223372036854775807)"
		})
		k.need(fi, "C17.gas/used", "success requires gasUsed <= gasLimit", "gasUsed > gasLimit can be accepted", func(f Fact) bool {
			return f.Op == "<=" && f.L.String() == "$3.GasUsed" && f.R.String() == "$3.GasLimit"
		})
		k.need(fi, "C17.gas/window", "success requires |parent.gasLimit - gasLimit| < parent.gasLimit/256", "the gas-limit change window is not enforced", func(f Fact) bool {
			// the absolute difference may be computed inline or by a helper: it must be
			// built from exactly the two gas limits and bounded by parent/256
			return f.Op == "<" && strings.Contains(f.L.String(), "$2.Header.GasLimit") && strings.Contains(f.L.String(), "$3.GasLimit") && f.R.String() == "($2.Header.GasLimit / const(256))"
		})
		k.need(fi, "C17.gas/min", "success requires gasLimit >= 5000", "the minimum gas limit is not enforced", func(f Fact) bool {
			return f.Op == "<=" && f.L.String() == "const(5000)" && f.R.String() == "$3.GasLimit"
		})
	}
	if fi := k.method(pBSC, "Header", "ValidateBasic"); fi != nil {
		ln := "builtin.len($0.Extra)"
		k.need(fi, "C17.basic/vanity", "extra data holds the vanity", "missing vanity accepted", func(f Fact) bool { return f.Op == "<=" && f.L.String() == "const(32)" && f.R.String() == ln })
		k.need(fi, "C17.basic/seal", "extra data holds vanity + seal", "missing seal accepted", func(f Fact) bool { return f.Op == "<=" && f.L.String() == "const(97)" && f.R.String() == ln })
		k.need(fi, "C17.basic/mixdigest", "mix digest is zero", "non-zero mix digest accepted", func(f Fact) bool {
			return f.Op == "==" && strings.Contains(f.Atom, "BytesToHash($0.MixDigest)")
		})
		k.need(fi, "C17.basic/unclehash", "uncle hash is the empty-uncles hash", "wrong uncle hash accepted", func(f Fact) bool {
			return f.Op == "==" && strings.Contains(f.Atom, "BytesToHash($0.UncleHash)") && strings.Contains(f.Atom, "uncleHash")
		})
	}
	// ---- verifySeal
	if fi := k.function(pBSC, "verifySeal"); fi != nil {
		fn := fnShort(fi)
		var rec *ssa.Call
		for _, b := range fi.Fn.Blocks {
			for _, in := range b.Instrs {
				if c, ok := in.(*ssa.Call); ok {
					if f := c.Call.StaticCallee(); f != nil && f.Name() == "ecrecover" {
						rec = c
					}
				}
			}
		}
		if rec == nil {
			r.Violate("C17.seal/recover", "MUST-PASS", fn, w.Pos(fi.Fn.Pos()), "verifySeal does not recover the signer")
		} else {
			a := termsOf(fi, rec.Call.Args)
			r.Check(a[0] == "$3" && strings.Contains(a[1], "$2.ChainId"), "C17.seal/recover.bind", "BIND", fn, fi.InstrPos(rec), "signer recovered from the header with the client's chain id", "ecrecover receives "+clip(strings.Join(a, ", ")))
			okp, ret := k.successPassesCall(fi, []*ssa.Call{rec})
			r.Check(okp, "C17.seal/recover", "MUST-PASS", fn, fi.InstrPos(rec), "success requires ecrecover == nil", "verifySeal can succeed although signature recovery failed — at "+retPos(fi, ret))
			signer := fi.T.Of(rec).String() + "#0"
			k.need(fi, "C17.seal/coinbase", "success requires signer == header.Coinbase", "a header sealed by someone else than its coinbase can be accepted", func(f Fact) bool {
				if f.Op != "==" {
					return false
				}
				cb := "github.com/ethereum/go-ethereum/common.BytesToAddress($3.Coinbase)"
				return (f.L.String() == signer && f.R.String() == cb) || (f.R.String() == signer && f.L.String() == cb)
			})
			snapT := ""
			for _, b := range fi.Fn.Blocks {
				for _, in := range b.Instrs {
					if c, ok := in.(*ssa.Call); ok {
						if f := c.Call.StaticCallee(); f != nil && f.Name() == "snapshot" {
							snapT = fi.T.Of(c).String() + "#0"
							a := termsOf(fi, c.Call.Args)
							r.Check(strings.Contains(a[0], "$2") && a[2] == "$1", "C17.seal/snapshot.bind", "BIND", fn, fi.InstrPos(c), "snapshot built from this client state and store", "snapshot built from "+clip(strings.Join(a, ", ")))
						}
					}
				}
			}
			k.need(fi, "C17.seal/member", "success requires signer ∈ snapshot.Validators", "a signer outside the current validator set can be accepted", func(f Fact) bool {
				return f.Op == "true" && f.L.Op == "extract" && f.L.Name == "1" && f.L.Args[0].Op == "index" && f.L.Args[0].Args[0].String() == snapT+".Validators" && f.L.Args[0].Args[1].String() == signer
			})
			// recency: an If  (number - (len(Validators)/2+1)) < seen  whose true edge only fails, under recent == signer
			found := false
			for _, f := range fi.facts {
				if f.Op != "<" || f.L.Op != "bin" || f.L.Name != "-" {
					continue
				}
				lim := f.L.Args[1].String()
				if f.L.Args[0].String() != H || !strings.Contains(lim, "builtin.len("+snapT+".Validators)") || !strings.Contains(lim, "/ const(2)) + const(1))") {
					continue
				}
				blk := f.If.Block().Succs[f.Succ]
				sameSigner := fi.HasFact(blk, func(g Fact) bool {
					return g.Op == "==" && (g.L.String() == signer || g.R.String() == signer) && (strings.Contains(g.L.String(), ".Recents") || strings.Contains(g.R.String(), ".Recents") || strings.Contains(g.Atom, "next("))
				})
				if failsOnly(fi, blk) && sameSigner {
					found = true
				}
			}
			r.Check(found, "C17.seal/recency", "GUARD-DOM", fn, w.Pos(fi.Fn.Pos()), "a signer seen after number-(N/2+1) leads only to failure", "the recency rule is missing or weakened: no fail-only branch on 'recent == signer && seen > number - (len(validators)/2 + 1)'")
			// difficulty by turn. snapshot.inturn is a one-line function and is inlined into
			// the condition: validators(snap)[(Number+1) % N] == signer
			isTurn := func(f Fact, op string) bool {
				if f.Op != op {
					return false
				}
				a, b := f.L.String(), f.R.String()
				return (a == signer && strings.Contains(b, ".validators("+snapT+")[")) || (b == signer && strings.Contains(a, ".validators("+snapT+")[")) ||
					((f.Op == "true" || f.Op == "false") && false)
			}
			isTurnCall := func(f Fact, want string) bool {
				return f.Op == want && f.L.Op == "call" && strings.HasSuffix(f.L.Name, ".inturn") && len(f.L.Args) == 2 && f.L.Args[0].String() == snapT && f.L.Args[1].String() == signer
			}
			hasTurn := false
			for _, f := range fi.facts {
				if isTurn(f, "==") || isTurnCall(f, "true") {
					hasTurn = true
				}
			}
			r.Check(hasTurn, "C17.seal/inturn.bind", "BIND", fn, w.Pos(fi.Fn.Pos()), "turn computed for the recovered signer on the snapshot", "no branch on snapshot.inturn(recovered signer) found")
			cmpWith := func(f Fact, g string) bool {
				return isZeroCmp(f, "==", func(t *Term) bool {
					return t.Op == "call" && strings.HasSuffix(t.Name, "big.Int).Cmp") && strings.Contains(t.Args[0].String(), "$3.Difficulty") && strings.Contains(t.Args[1].String(), g)
				})
			}
			k.needEither(fi, "C17.seal/difficulty.inturn", "an in-turn signer must use the in-turn difficulty", "an in-turn header with a difficulty other than diffInTurn can be accepted", func(f Fact) bool {
				return isTurn(f, "!=") || isTurnCall(f, "false") || cmpWith(f, "diffInTurn")
			})
			k.needEither(fi, "C17.seal/difficulty.noturn", "an out-of-turn signer must use the out-of-turn difficulty", "an out-of-turn header with a difficulty other than diffNoTurn can be accepted", func(f Fact) bool {
				return isTurn(f, "==") || isTurnCall(f, "true") || cmpWith(f, "diffNoTurn")
			})
		}
	}
	// difficulty constants and turn computation
	for g, want := range map[string]string{"diffInTurn": "2", "diffNoTurn": "1"} {
		it := w.globalInit(shortPath(pBSC) + "." + g)
		r.Check(it != nil && strings.Contains(it.String(), "NewInt(const("+want+"))"), "C17.seal/const."+g, "CONST-EVAL", shortPath(pBSC)+"."+g, "-", g+" = "+want, g+" is not initialised to "+want+": "+fmt.Sprint(it))
	}
	if fi := k.method(pBSC, "snapshot", "inturn"); fi != nil {
		for _, rt := range fi.Returns() {
			s := fi.T.Of(RetVal(rt.Instr, 0)).String()
			ok := strings.Contains(s, "validators($0)") && strings.Contains(s, "(const(1) + $0.Number)") && strings.Contains(s, "% conv:uint64(builtin.len(") && strings.Contains(s, "== $1")
			if !ok {
				ok = strings.Contains(s, ".validators(") && strings.Contains(s, "$0.Number") && strings.Contains(s, "const(1)") && strings.Contains(s, "%") && strings.Contains(s, "$1")
			}
			r.Check(ok, "C17.seal/inturn.shape", "BIND", fnShort(fi), fi.InstrPos(rt.Instr), "inturn = sortedValidators[(Number+1) mod N] == validator", "inturn is computed as "+clip(s))
		}
	}
	if fi := k.method(pBSC, "ClientState", "snapshot"); fi != nil {
		// Number = latest header number; Validators filled from m.Validators
		okN, okV := false, false
		for _, rt := range fi.Returns() {
			if rt.Kind == RetFail {
				continue
			}
			if kvOf(fi.T.Of(RetVal(rt.Instr, 0)), "Number") == "$0.Header.Height.RevisionHeight" {
				okN = true
			}
		}
		for _, b := range fi.Fn.Blocks {
			for _, in := range b.Instrs {
				if x, ok := in.(*ssa.MapUpdate); ok && strings.Contains(fi.T.Of(x.Key).String(), "$0.Validators[") {
					okV = true
				}
			}
		}
		r.Check(okN && okV, "C17.seal/snapshot.shape", "BIND", fnShort(fi), w.Pos(fi.Fn.Pos()), "snapshot.Number = latest header number, snapshot.Validators = client validators", fmt.Sprintf("snapshot is not built from the client's latest header number (%v) and validator list (%v)", okN, okV))
	}
	// ---- update()
	if fi := k.function(pBSC, "update"); fi != nil {
		fn := fnShort(fi)
		cs, hdr := P(2), P(3)
		num := hdr.String() + ".Height.RevisionHeight"
		for _, rt := range fi.Returns() {
			if rt.Kind == RetFail {
				continue
			}
			t := fi.T.Of(RetVal(rt.Instr, 1))
			r.Check(kvOf(t, "Timestamp") == hdr.String()+".Time" && kvOf(t, "Number") == hdr.String()+".Height" && kvOf(t, "Root") == hdr.String()+".Root", "C17.update/consensus", "BIND", fn, fi.InstrPos(rt.Instr), "consensus state = {header.Time, header.Height, header.Root}", "consensus state is "+clip(t.String()))
			// latest header store on every success path
			var sts []ssa.Instruction
			for _, b := range fi.Fn.Blocks {
				for _, in := range b.Instrs {
					if st, ok := in.(*ssa.Store); ok && fi.T.Of(st.Addr).String() == cs.String()+".Header" {
						sts = append(sts, in)
						r.Check(strings.Contains(fi.T.Of(st.Val).String(), hdr.String()), "C17.update/latest.value", "BIND", fn, fi.InstrPos(in), "latest header := *header", "latest header is set to "+clip(fi.T.Of(st.Val).String()))
					}
				}
			}
			path := fi.PathAvoiding(rt.Instr, func(x ssa.Instruction) bool {
				for _, s := range sts {
					if s == x {
						return true
					}
				}
				return false
			})
			r.Check(len(sts) > 0 && path == nil, "C17.update/latest", "MUST-PASS", fn, fi.InstrPos(rt.Instr), "every success path sets clientState.Header", "update can succeed without making the accepted header the latest header: "+fi.DescribePath(path))
		}
		// rotation
		nRot := 0
		// the replacement may live in update() itself or in a same-package helper it calls
		for _, ds := range k.deepStores(fi, 2, func(a *Term) bool { return a.String() == cs.String()+".Validators" }) {
			st := ds.Store
			sfi := ds.Scope.Fi
			nRot++
			want := "conv:uint64((builtin.len(" + cs.String() + ".Validators) / const(2)))"
			okG := false
			for _, f := range k.factsAtScoped(fi, ds.Scope, st) {
				if f.Op != "==" {
					continue
				}
				rem := "(" + num + " % " + cs.String() + ".Epoch)"
				if (f.L.String() == rem && f.R.String() == want) || (f.R.String() == rem && f.L.String() == want) {
					okG = true
				}
			}
			r.Check(okG, "C17.update/rotation.when", "GUARD-DOM", fn, sfi.InstrPos(st), "validator set replaced exactly at number mod Epoch == len(current validators)/2", "the validator set is replaced under a different condition than 'number mod Epoch == len(CURRENT validators)/2' (e.g. measured on the pending set): the announced set takes effect at the wrong height when the set size changes")
			v := sfi.T.Of(st.Val).String()
			r.Check((strings.Contains(v, "GetPendingValidators($0,$1)") || (strings.Contains(v, "$1.Get(") && strings.Contains(v, "PrefixPendingValidators"))) && strings.HasSuffix(v, ".Validators"), "C17.update/rotation.value", "BIND", fn, sfi.InstrPos(st), "new validator set = stored pending validators (in announced order)", "new validator set is "+clip(v)+", expected the stored pending validators")
		}
		r.Check(nRot == 1, "C17.update/rotation", "MUST-PASS", fn, w.Pos(fi.Fn.Pos()), "one validator-set replacement site", fmt.Sprintf("%d validator-set replacement sites", nRot))
		for _, c := range fi.Calls(func(c *ssa.CallCommon) bool {
			f := c.StaticCallee()
			return f != nil && f.Name() == "SetPendingValidators"
		}) {
			okG := fi.HasFact(c.Block(), func(f Fact) bool {
				return isZeroCmp(f, "==", func(t *Term) bool { return t.String() == "("+num+" % "+cs.String()+".Epoch)" })
			})
			r.Check(okG, "C17.update/pending.when", "GUARD-DOM", fn, fi.InstrPos(c), "pending set written at epoch blocks", "the pending validator set is written on a non-epoch block")
			a := termsOf(fi, c.Common().Args)
			r.Check(strings.Contains(a[2], "ParseValidators("+hdr.String()+".Extra)"), "C17.update/pending.value", "BIND", fn, fi.InstrPos(c), "pending set parsed from the header's extra data", "pending set is "+clip(a[2]))
		}
	}
	// the keeper (shared by all client types) stores what the accepted header defines
	k.keeperUpdateRule("C17")
	k.sigHeaderRule("C17.seal.sighash")
	r.MinInstances("C17.", 38)
}
