package main

import (
	"go/token"
	"go/types"

	"golang.org/x/tools/go/ssa"
)

// errResultIndex returns the index of the error result of a call, or -1.
func errResultIndex(c *ssa.Call) int {
	res := c.Call.Signature().Results()
	for i := res.Len() - 1; i >= 0; i-- {
		if types.Identical(res.At(i).Type(), errorType) {
			return i
		}
	}
	return -1
}

// errValue returns the SSA value carrying the error result of c (nil if it is discarded).
func errValue(c *ssa.Call) ssa.Value {
	ei := errResultIndex(c)
	if ei < 0 {
		return nil
	}
	if c.Call.Signature().Results().Len() == 1 {
		if refs := c.Referrers(); refs == nil || len(nonDebug(*refs)) == 0 {
			return nil
		}
		return c
	}
	if refs := c.Referrers(); refs != nil {
		for _, r := range *refs {
			if ex, ok := r.(*ssa.Extract); ok && ex.Index == ei {
				if rr := ex.Referrers(); rr != nil && len(nonDebug(*rr)) > 0 {
					return ex
				}
				return nil
			}
		}
	}
	return nil
}

func nonDebug(in []ssa.Instruction) []ssa.Instruction {
	var out []ssa.Instruction
	for _, i := range in {
		if _, ok := i.(*ssa.DebugRef); !ok {
			out = append(out, i)
		}
	}
	return out
}

// ErrUse classifies how an error produced by a call is treated.
type ErrUse struct {
	Dropped      bool            // result discarded
	Unchecked    bool            // value used but never compared with nil nor returned
	SwallowedAt  *ssa.Return     // a non-failing return reachable from the err != nil edge
	CheckedAt    ssa.Instruction // the If that tests it
	ReturnedOnly bool            // returned directly (tail call style)
}

// errUse analyses one call.
func (fi *FnInfo) errUse(c *ssa.Call) ErrUse {
	ev := errValue(c)
	if ev == nil {
		return ErrUse{Dropped: true}
	}
	// values equivalent to ev: ev itself, phis merging it, cells it is stored into
	equiv := map[ssa.Value]bool{ev: true}
	work := []ssa.Value{ev}
	var ifs []*ssa.If
	var ifPol []bool // true: cond true means "err != nil"
	returned := false
	for len(work) > 0 {
		v := work[len(work)-1]
		work = work[:len(work)-1]
		refs := v.Referrers()
		if refs == nil {
			continue
		}
		for _, r := range *refs {
			switch x := r.(type) {
			case *ssa.Phi:
				if !equiv[x] {
					equiv[x] = true
					work = append(work, x)
				}
			case *ssa.Return:
				returned = true
			case *ssa.Store:
				// spilled result cell or a captured variable: follow loads of the cell
				if al, ok := x.Addr.(*ssa.Alloc); ok && x.Val == v {
					if ar := al.Referrers(); ar != nil {
						for _, u := range *ar {
							if ld, ok := u.(*ssa.UnOp); ok && ld.Op == token.MUL && !equiv[ld] {
								equiv[ld] = true
								work = append(work, ld)
							}
						}
					}
				}
			case *ssa.BinOp:
				if x.Op != token.NEQ && x.Op != token.EQL {
					continue
				}
				other := x.Y
				if other == v {
					other = x.X
				}
				if !isNilConst(other) {
					continue
				}
				if br := x.Referrers(); br != nil {
					for _, u := range *br {
						if iff, ok := u.(*ssa.If); ok {
							ifs = append(ifs, iff)
							ifPol = append(ifPol, x.Op == token.NEQ)
						}
					}
				}
			}
		}
	}
	if len(ifs) == 0 {
		if returned {
			return ErrUse{ReturnedOnly: true}
		}
		return ErrUse{Unchecked: true}
	}
	rets := map[*ssa.Return]RetKind{}
	for _, r := range fi.Returns() {
		rets[r.Instr] = r.Kind
	}
	for i, iff := range ifs {
		succ := 1
		if ifPol[i] {
			succ = 0
		}
		start := iff.Block().Succs[succ]
		seen := map[int]bool{start.Index: true}
		stack := []*ssa.BasicBlock{start}
		for len(stack) > 0 {
			b := stack[len(stack)-1]
			stack = stack[:len(stack)-1]
			for _, in := range b.Instrs {
				if r, ok := in.(*ssa.Return); ok {
					if k := rets[r]; k == RetSuccess || k == RetMaybe {
						// a maybe-return that returns this very error (or a wrap of it) is propagation
						if k == RetMaybe && fi.returnsValue(r, equiv) {
							continue
						}
						return ErrUse{SwallowedAt: r, CheckedAt: iff}
					}
				}
			}
			for _, s := range b.Succs {
				if !seen[s.Index] {
					seen[s.Index] = true
					stack = append(stack, s)
				}
			}
		}
	}
	return ErrUse{CheckedAt: ifs[0]}
}

func (fi *FnInfo) returnsValue(r *ssa.Return, equiv map[ssa.Value]bool) bool {
	ei := fi.errIndex()
	v := RetVal(r, ei)
	if v == nil {
		return false
	}
	if equiv[v] {
		return true
	}
	if c, ok := v.(*ssa.Call); ok {
		if fn := c.Call.StaticCallee(); fn != nil && errWrappers[funcName(fn)] && len(c.Call.Args) > 0 && equiv[c.Call.Args[0]] {
			return true
		}
	}
	return false
}

// errPropRule: every error-returning call in fi is propagated. sanctioned maps callee
// names (method or function name) to a reason for an accepted error->success conversion
// or deliberate discard inside this function.
func (k *K) errPropRule(id string, fi *FnInfo, sanctioned map[string]string) {
	fn := fnShort(fi)
	for _, b := range fi.Fn.Blocks {
		for _, in := range b.Instrs {
			c, ok := in.(*ssa.Call)
			if !ok || errResultIndex(c) < 0 {
				continue
			}
			name := calleeShort(&c.Call)
			u := fi.errUse(c)
			oid := id + "/" + fi.Fn.Name() + ":" + name
			switch {
			case u.Dropped, u.Unchecked, u.SwallowedAt != nil:
				what := "its error result is discarded"
				if u.Unchecked {
					what = "its error result is never compared with nil nor returned"
				}
				if u.SwallowedAt != nil {
					what = "after its error is detected, control can still reach the non-failing return at " + fi.InstrPos(u.SwallowedAt)
				}
				if why, ok := sanctioned[name]; ok {
					k.r.OK(oid, "ERR-PROP", fn, fi.InstrPos(c), "sanctioned: "+why)
				} else {
					k.r.Violate(oid, "ERR-PROP", fn, fi.InstrPos(c), "call to "+name+": "+what)
				}
			default:
				k.r.OK(oid, "ERR-PROP", fn, fi.InstrPos(c), "error of "+name+" is propagated")
			}
		}
	}
}

func calleeShort(c *ssa.CallCommon) string {
	if c.IsInvoke() {
		return c.Method.Name()
	}
	if fn := c.StaticCallee(); fn != nil {
		return fn.Name()
	}
	return "dynamic"
}
