package main

import (
	"fmt"
	"strings"
)

// traceRule: the class-trace codec of a transfer app is lossless.
//
// A voucher class is named by the hash of ClassTrace.GetFullClassPath(), and the trace is
// obtained from a full class path with ParseClassTrace. Escrow is released according to
// the path that is rebuilt from the stored trace, so two different full paths must never
// parse to the same trace: ParseClassTrace followed by GetFullClassPath has to give the
// string back. That holds when
//
//	GetFullClassPath = BaseClass                       if Path == ""
//	                   Path + D + BaseClass            otherwise
//	ParseClassTrace  = {Path: "", BaseClass: raw}      or
//	                   {Path: Join(S[:len(S)-1], D), BaseClass: S[len(S)-1]}, S = strings.Split(raw, D)
//
// with one and the same delimiter constant D (strings.Split keeps empty elements, so
// Join(Split(x, D), D) == x). The rule checks these value terms; any other way of
// decomposing the string is reported as undecided (the checker cannot show it lossless).
func (k *K) traceRule(id string, app appDesc) {
	gf := k.method(app.typesPkg, "ClassTrace", "GetFullClassPath")
	pt := k.function(app.typesPkg, "ParseClassTrace")
	if gf == nil || pt == nil {
		return
	}
	// --- GetFullClassPath: which delimiter joins Path and BaseClass
	path, base := FieldT(P(0), "Path").String(), FieldT(P(0), "BaseClass").String()
	delim := ""
	okJoin := true
	for _, rt := range gf.Returns() {
		t := gf.T.Of(RetVal(rt.Instr, 0))
		s := t.String()
		if s == base {
			// only the base class: allowed where the path is empty
			if !gf.HasAtom(rt.Instr.Block(), atomEQ(path, `const("")`)) {
				okJoin = false
			}
			continue
		}
		// ((Path + D) + BaseClass)
		if t.Op == "bin" && t.Name == "+" && t.Args[1].String() == base && t.Args[0].Op == "bin" && t.Args[0].Name == "+" && t.Args[0].Args[0].String() == path && t.Args[0].Args[1].Op == "const" {
			d := t.Args[0].Args[1].String()
			if delim != "" && delim != d {
				okJoin = false
			}
			delim = d
			continue
		}
		okJoin = false
	}
	k.r.Check(okJoin && delim != "", id+"/"+app.name+".full-path", "BIND", fnShort(gf), k.w.Pos(gf.Fn.Pos()), "full class path = Path + "+delim+" + BaseClass (BaseClass alone when Path is empty)",
		"GetFullClassPath is not 'Path + delimiter + BaseClass': the hash that names a voucher class no longer identifies one class path")
	if delim == "" {
		return
	}
	// --- ParseClassTrace: lossless inverse
	split := "strings.Split($0," + delim + ")"
	n1 := "(builtin.len(" + split + ") - const(1))"
	wantP := "strings.Join(" + split + "[const():" + n1 + "]," + delim + ")"
	wantB := split + "[" + n1 + "]"
	// the same decomposition written with LastIndex: raw[:i] and raw[i+len(D):]
	li := "strings.LastIndex($0," + delim + ")"
	dl := 1
	if d, ok := unquoteConst(strings.TrimSuffix(strings.TrimPrefix(delim, "const("), ")")); ok {
		dl = len(d)
	}
	wantP3 := "$0[const():" + li + "]"
	wantB3 := fmt.Sprintf("$0[(%s + const(%d)):const()]", li, dl)
	nret := 0
	for _, rt := range pt.Returns() {
		t := pt.T.Of(RetVal(rt.Instr, 0))
		nret++
		site := pt.InstrPos(rt.Instr)
		if t.Op != "lit" {
			k.r.Undecided(id+"/"+app.name+".parse", "BIND", fnShort(pt), site, "ParseClassTrace returns "+clip(t.String())+", not a ClassTrace literal whose parts can be related to the input")
			continue
		}
		p, b := kvOf(t, "Path"), kvOf(t, "BaseClass")
		switch {
		case p == `const("")` && b == "$0":
			k.r.OK(id+"/"+app.name+".parse/whole", "BIND", fnShort(pt), site, "{Path: \"\", BaseClass: raw}: rebuilt path is raw")
		case p == wantP && b == wantB:
			k.r.OK(id+"/"+app.name+".parse/split", "BIND", fnShort(pt), site, "{Path: Join(Split(raw,D)[:n-1],D), BaseClass: Split(raw,D)[n-1]}: rebuilt path is raw")
		case p == wantP3 && (b == wantB3 || b == fmt.Sprintf("$0[(const(%d) + %s):const()]", dl, li)):
			k.r.OK(id+"/"+app.name+".parse/split", "BIND", fnShort(pt), site, "{Path: raw[:i], BaseClass: raw[i+len(D):]}, i = LastIndex(raw, D): rebuilt path is raw")
		default:
			k.r.Undecided(id+"/"+app.name+".parse/lossless", "BIND", fnShort(pt), site, fmt.Sprintf("ParseClassTrace returns {Path: %s, BaseClass: %s}; the checker can show Path + %s + BaseClass == raw only for the whole-string form and for the strings.Split/strings.Join form (Split keeps empty elements): two different class paths may share a trace, i.e. a voucher class, and escrow of one class is released against a voucher of another", clip(p), clip(b), delim))
		}
	}
	if nret == 0 {
		k.r.Undecided(id+"/"+app.name+".parse", "BIND", fnShort(pt), k.w.Pos(pt.Fn.Pos()), "ParseClassTrace has no return")
	}
}
