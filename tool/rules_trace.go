package main

import (
	"fmt"
	"strconv"
	"strings"
)

// traceRule: the class-trace codec of a transfer app is lossless.
//
// A voucher class is named by the hash of ClassTrace.GetFullClassPath(), and the trace is
// obtained from a full class path with ParseClassTrace. Escrow is released according to
// the path that is rebuilt from the stored trace, so two different full paths must never
// parse to the same trace: ParseClassTrace followed by GetFullClassPath has to give the
// string back. That holds when
//
//	GetFullClassPath = BaseClass                       if Path == ""
//	                   Path + D + BaseClass            otherwise
//	ParseClassTrace  = {Path: "", BaseClass: raw}      or
//	                   {Path: Join(S[:len(S)-1], D), BaseClass: S[len(S)-1]}, S = strings.Split(raw, D)
//
// with one and the same delimiter constant D (strings.Split keeps empty elements, so
// Join(Split(x, D), D) == x). The rule checks these value terms; any other way of
// decomposing the string is reported as undecided (the checker cannot show it lossless).
func (k *K) traceRule(id string, app appDesc) {
	gf := k.method(app.typesPkg, "ClassTrace", "GetFullClassPath")
	pt := k.function(app.typesPkg, "ParseClassTrace")
	if gf == nil || pt == nil {
		return
	}
	// --- GetFullClassPath: which delimiter joins Path and BaseClass
	path, base := FieldT(P(0), "Path").String(), FieldT(P(0), "BaseClass").String()
	delim := ""
	okJoin := true
	for _, rt := range gf.Returns() {
		t := gf.T.Of(RetVal(rt.Instr, 0))
		s := t.String()
		if s == base {
			// only the base class: allowed where the path is empty
			if !gf.HasAtom(rt.Instr.Block(), atomEQ(path, `const("")`)) {
				okJoin = false
			}
			continue
		}
		// ((Path + D) + BaseClass)
		if t.Op == "bin" && t.Name == "+" && t.Args[1].String() == base && t.Args[0].Op == "bin" && t.Args[0].Name == "+" && t.Args[0].Args[0].String() == path && t.Args[0].Args[1].Op == "const" {
			d := t.Args[0].Args[1].String()
			if delim != "" && delim != d {
				okJoin = false
			}
			delim = d
			continue
		}
		okJoin = false
	}
	k.r.Check(okJoin && delim != "", id+"/"+app.name+".full-path", "BIND", fnShort(gf), k.w.Pos(gf.Fn.Pos()), "full class path = Path + "+delim+" + BaseClass (BaseClass alone when Path is empty)",
		"GetFullClassPath is not 'Path + delimiter + BaseClass': the hash that names a voucher class no longer identifies one class path")
	if delim == "" {
		return
	}
	// --- ParseClassTrace: lossless inverse
	split := "strings.Split($0," + delim + ")"
	n1 := "(builtin.len(" + split + ") - const(1))"
	wantP := "strings.Join(" + split + "[const():" + n1 + "]," + delim + ")"
	wantB := split + "[" + n1 + "]"
	// the same decomposition written with LastIndex: raw[:i] and raw[i+len(D):]
	li := "strings.LastIndex($0," + delim + ")"
	dl := 1
	if d, ok := unquoteConst(strings.TrimSuffix(strings.TrimPrefix(delim, "const("), ")")); ok {
		dl = len(d)
	}
	wantP3 := "$0[const():" + li + "]"
	wantB3 := fmt.Sprintf("$0[(%s + const(%d)):const()]", li, dl)
	nret := 0
	for _, rt := range pt.Returns() {
		t := pt.T.Of(RetVal(rt.Instr, 0))
		nret++
		site := pt.InstrPos(rt.Instr)
		if t.Op != "lit" {
			k.r.Undecided(id+"/"+app.name+".parse", "BIND", fnShort(pt), site, "ParseClassTrace returns "+clip(t.String())+", not a ClassTrace literal whose parts can be related to the input")
			continue
		}
		p, b := kvOf(t, "Path"), kvOf(t, "BaseClass")
		switch {
		case p == `const("")` && b == "$0":
			k.r.OK(id+"/"+app.name+".parse/whole", "BIND", fnShort(pt), site, "{Path: \"\", BaseClass: raw}: rebuilt path is raw")
		case p == wantP && b == wantB:
			k.r.OK(id+"/"+app.name+".parse/split", "BIND", fnShort(pt), site, "{Path: Join(Split(raw,D)[:n-1],D), BaseClass: Split(raw,D)[n-1]}: rebuilt path is raw")
		case p == wantP3 && (b == wantB3 || b == fmt.Sprintf("$0[(const(%d) + %s):const()]", dl, li)):
			k.r.OK(id+"/"+app.name+".parse/split", "BIND", fnShort(pt), site, "{Path: raw[:i], BaseClass: raw[i+len(D):]}, i = LastIndex(raw, D): rebuilt path is raw")
		default:
			k.r.Undecided(id+"/"+app.name+".parse/lossless", "BIND", fnShort(pt), site, fmt.Sprintf("ParseClassTrace returns {Path: %s, BaseClass: %s}; the checker can show Path + %s + BaseClass == raw only for the whole-string form and for the strings.Split/strings.Join form (Split keeps empty elements): two different class paths may share a trace, i.e. a voucher class, and escrow of one class is released against a voucher of another", clip(p), clip(b), delim))
		}
	}
	if nret == 0 {
		k.r.Undecided(id+"/"+app.name+".parse", "BIND", fnShort(pt), k.w.Pos(pt.Fn.Pos()), "ParseClassTrace has no return")
	}
}

// seqOf normalises a []string-valued term into the sequence of path elements it denotes:
// "R:S[:hi]" for a leading range of the split S, "E:term" for a single element. It
// understands append (with a variadic slice or with listed elements), slice literals,
// make([]string, 0, n), sub-slices of S and S[n-1:] (the last element). ok=false for
// anything else.
func seqOf(t *Term, S, n1 string) ([]string, bool) {
	switch t.Op {
	case "make":
		if len(t.Args) == 1 && t.Args[0].String() == "const(0)" {
			return nil, true
		}
		return nil, false
	case "arr":
		var out []string
		for _, a := range t.Args {
			out = append(out, "E:"+a.String())
		}
		return out, true
	case "slice":
		if len(t.Args) != 3 || t.Args[0].String() != S {
			return nil, false
		}
		lo, hi := t.Args[1], t.Args[2]
		loEmpty := lo.Op == "const" && (lo.Name == "" || lo.Name == "0")
		hiEmpty := hi.Op == "const" && hi.Name == ""
		switch {
		case loEmpty && !hiEmpty:
			return []string{"R:" + S + "[:" + foldSub(hi) + "]"}, true
		case lo.String() == n1 && hiEmpty:
			return []string{"E:" + S + "[" + n1 + "]"}, true
		}
		return nil, false
	case "call":
		if t.Name == "builtin.append" && len(t.Args) >= 1 {
			out, ok := seqOf(t.Args[0], S, n1)
			if !ok {
				return nil, false
			}
			for _, a := range t.Args[1:] {
				more, ok := seqOf(a, S, n1)
				if !ok {
					return nil, false
				}
				out = append(out, more...)
			}
			return out, true
		}
	}
	return nil, false
}

// foldSub renders (x - a) - b with integer constants a, b as (x - const(a+b)).
func foldSub(t *Term) string {
	base, sum, n := t, 0, 0
	for base.Op == "bin" && base.Name == "-" && len(base.Args) == 2 && base.Args[1].Op == "const" {
		c, err := strconv.Atoi(base.Args[1].Name)
		if err != nil {
			break
		}
		sum += c
		n++
		base = base.Args[0]
	}
	if n == 0 {
		return t.String()
	}
	return "(" + base.String() + " - const(" + strconv.Itoa(sum) + "))"
}

// pathArithRule: the two class-path helpers are exact inverses at the level of path
// elements. Moving away inserts the receiving chain in front of the base class and keeps
// every other element; moving back removes the element in front of the base class (or
// returns the base class when only prefix/source/dest/base are left):
//
//	away(class, dest) = Join(S[:n-1] ++ [dest] ++ S[n-1:], D)      S = Split(class, D), n = len(S)
//	back(class)       = Join(S[:n-2] ++ [S[n-1]], D)   |   S[n-1]
//
// Any other way of rebuilding the path (fixed indices, a bounded split) is reported as
// undecided: the checker can show "all hops are preserved" only for these forms.
func (k *K) pathArithRule(id string, app appDesc) {
	type spec struct {
		name     string
		classIdx int
		want     func(S, n1, D string) []string
	}
	specs := []spec{
		{"getAwayNewClassPath", 3, func(S, n1, D string) []string {
			return []string{"strings.Join(builtin.append(" + S + "[const():" + n1 + "],builtin.append(arr:($2)," + S + "[" + n1 + ":const()]))," + D + ")"}
		}},
		{"getBackNewClassPath", 1, func(S, n1, D string) []string {
			n2 := strings.Replace(n1, "const(1)", "const(2)", 1)
			return []string{"strings.Join(builtin.append(" + S + "[const():" + n2 + "],arr:(" + S + "[" + n1 + "]))," + D + ")", S + "[" + n1 + "]"}
		}},
	}
	for _, sp := range specs {
		fi := k.method(app.keeperPkg, "Keeper", sp.name)
		if fi == nil {
			continue
		}
		cls := P(sp.classIdx).String()
		nret, bad := 0, ""
		for _, rt := range fi.Returns() {
			t := fi.T.Of(RetVal(rt.Instr, 0))
			var leaves []*Term
			var flat func(x *Term)
			flat = func(x *Term) {
				if x.Op == "phi" {
					for _, a := range x.Args {
						flat(a)
					}
					return
				}
				leaves = append(leaves, x)
			}
			flat(t)
			for _, l := range leaves {
				s := l.String()
				if !strings.Contains(s, "strings.Split(") && !strings.Contains(s, "strings.SplitN(") && !strings.Contains(s, "strings.Fields") {
					continue // the native-class branch (prefix/source/dest/class), checked by the branch tables
				}
				nret++
				// the delimiter is whatever constant the split uses; it must be used consistently
				i := strings.Index(s, "strings.Split("+cls+",")
				if i < 0 {
					bad = clip(s)
					continue
				}
				rest := s[i+len("strings.Split("+cls+","):]
				j := strings.Index(rest, ")")
				if j < 0 || !strings.HasPrefix(rest, "const(") {
					bad = clip(s)
					continue
				}
				D := rest[:j+1]
				S := "strings.Split(" + cls + "," + D + ")"
				n1 := "(builtin.len(" + S + ") - const(1))"
				ok := false
				for _, w := range sp.want(S, n1, D) {
					if s == w {
						ok = true
					}
				}
				// the same element sequence built another way (fresh slice + appends, one append
				// with several elements, ...): compare the sequences of path elements
				if !ok {
					n2 := strings.Replace(n1, "const(1)", "const(2)", 1)
					last := "E:" + S + "[" + n1 + "]"
					var want [][]string
					if sp.name == "getAwayNewClassPath" {
						want = [][]string{{"R:" + S + "[:" + n1 + "]", "E:$2", last}}
					} else {
						want = [][]string{{"R:" + S + "[:" + n2 + "]", last}, {last}}
					}
					var got []string
					okSeq := false
					if l.Op == "call" && l.Name == "strings.Join" && len(l.Args) == 2 && l.Args[1].String() == D {
						got, okSeq = seqOf(l.Args[0], S, n1)
					} else if l.Op == "index" {
						got, okSeq = seqOf(&Term{Op: "arr", Args: []*Term{l}}, S, n1)
					}
					if okSeq {
						for _, w := range want {
							if strings.Join(got, " ") == strings.Join(w, " ") {
								ok = true
							}
						}
					}
				}
				if !ok {
					bad = clip(s)
				}
			}
		}
		if nret == 0 {
			k.r.Undecided(id+"/"+app.name+"."+sp.name, "BIND", fnShort(fi), k.w.Pos(fi.Fn.Pos()), "no path-rebuilding result found in "+sp.name)
			continue
		}
		if bad != "" {
			k.r.Undecided(id+"/"+app.name+"."+sp.name, "BIND", fnShort(fi), k.w.Pos(fi.Fn.Pos()), sp.name+" rebuilds the class path as "+bad+"; the checker can show that every hop of the old path is preserved (so that each intermediate chain's voucher is burnt on the way back) only for the element-wise insert/remove forms over strings.Split/strings.Join")
			continue
		}
		k.r.OK(id+"/"+app.name+"."+sp.name, "BIND", fnShort(fi), k.w.Pos(fi.Fn.Pos()), "path rebuilt element-wise: all hops preserved, one element inserted/removed in front of the base class")
	}
}
