package main

import (
	"fmt"
	"go/token"
	"go/types"
	"os"
	"path/filepath"
	"sort"
	"strings"

	"golang.org/x/tools/go/packages"
	"golang.org/x/tools/go/ssa"
	"golang.org/x/tools/go/ssa/ssautil"
)

const modPath = "github.com/bianjieai/tibc-go"

// World is the loaded, type-checked and SSA-built view of /repo's working tree.
type World struct {
	Repo   string
	Fset   *token.FileSet
	Pkgs   []*packages.Package
	ByPath map[string]*packages.Package
	Prog   *ssa.Program
	SSA    map[string]*ssa.Package
	// all source functions (incl. anonymous) of repo packages
	Funcs   []*ssa.Function
	cg      *CG
	fiCache map[*ssa.Function]*FnInfo
}

// extra dependency packages whose bodies some rules read (pinned in go.mod)
var extraPkgs = []string{
	"mods.irisnet.org/modules/nft/types",
	"mods.irisnet.org/modules/mt/types",
	"mods.irisnet.org/modules/mt/keeper",
	"mods.irisnet.org/modules/nft/keeper",
	"github.com/cometbft/cometbft/light",
}

func Load(repo string, overlay map[string][]byte, tags string) (*World, error) {
	cfg := &packages.Config{
		Mode:    packages.LoadSyntax,
		Dir:     repo,
		Overlay: overlay,
		Env: append(os.Environ(),
			"GOFLAGS=-mod=mod", "GOPROXY=off", "GOSUMDB=off", "GOTOOLCHAIN=local", "GOWORK=off"),
	}
	if tags != "" {
		cfg.BuildFlags = []string{"-tags=" + tags}
	}
	// scratch worktrees (seed matrix, benign variants): -trimpath makes the export data of
	// unchanged packages shareable between worktrees instead of filling the build cache with
	// one copy per directory (a day of such runs grew the cache to 111 GB)
	if os.Getenv("TIBCVET_TRIMPATH") != "" {
		cfg.BuildFlags = append(cfg.BuildFlags, "-trimpath")
	}
	pats := append([]string{"./..."}, extraPkgs...)
	pkgs, err := packages.Load(cfg, pats...)
	if err != nil {
		return nil, fmt.Errorf("packages.Load: %w", err)
	}
	w := &World{Repo: repo, ByPath: map[string]*packages.Package{}, SSA: map[string]*ssa.Package{}}
	nerr := 0
	var errs []string
	for _, p := range pkgs {
		for _, e := range p.Errors {
			nerr++
			errs = append(errs, fmt.Sprintf("%s: %s", p.PkgPath, e.Msg))
		}
		if p.Types == nil || p.TypesInfo == nil {
			nerr++
			errs = append(errs, p.PkgPath+": no type information")
		}
		w.ByPath[p.PkgPath] = p
	}
	if nerr > 0 {
		sort.Strings(errs)
		if len(errs) > 8 {
			errs = errs[:8]
		}
		return nil, fmt.Errorf("%d load/type errors, e.g.:\n  %s", nerr, strings.Join(errs, "\n  "))
	}
	nrepo := 0
	for _, p := range pkgs {
		if strings.HasPrefix(p.PkgPath, modPath) {
			nrepo++
		}
	}
	if nrepo < 45 {
		return nil, fmt.Errorf("only %d repository packages loaded (expected >= 45)", nrepo)
	}
	w.Pkgs = pkgs
	if len(pkgs) > 0 {
		w.Fset = pkgs[0].Fset
	}
	prog, spkgs := ssautil.Packages(pkgs, ssa.InstantiateGenerics)
	prog.Build()
	w.Prog = prog
	for i, sp := range spkgs {
		if sp != nil {
			w.SSA[pkgs[i].PkgPath] = sp
		}
	}
	for fn := range ssautil.AllFunctions(prog) {
		if fn.Pkg == nil || fn.Blocks == nil {
			continue
		}
		if _, ok := w.SSA[fn.Pkg.Pkg.Path()]; !ok {
			continue
		}
		if fn.Synthetic != "" && fn.Parent() == nil {
			continue
		}
		w.Funcs = append(w.Funcs, fn)
	}
	sort.Slice(w.Funcs, func(i, j int) bool { return w.Funcs[i].String() < w.Funcs[j].String() })
	return w, nil
}

// Pos renders a position relative to the repository root.
func (w *World) Pos(p token.Pos) string {
	if !p.IsValid() {
		return "?"
	}
	pp := w.Fset.Position(p)
	rel, err := filepath.Rel(w.Repo, pp.Filename)
	if err != nil || strings.HasPrefix(rel, "..") {
		rel = pp.Filename
	}
	return fmt.Sprintf("%s:%d", rel, pp.Line)
}

func (w *World) File(p token.Pos) string {
	if !p.IsValid() {
		return ""
	}
	pp := w.Fset.Position(p)
	rel, err := filepath.Rel(w.Repo, pp.Filename)
	if err != nil {
		return pp.Filename
	}
	return rel
}

// short package aliases used by the rules
const (
	pPacketKeeper  = modPath + "/modules/tibc/core/04-packet/keeper"
	pPacketTypes   = modPath + "/modules/tibc/core/04-packet/types"
	pClientKeeper  = modPath + "/modules/tibc/core/02-client/keeper"
	pClientTypes   = modPath + "/modules/tibc/core/02-client/types"
	pClient        = modPath + "/modules/tibc/core/02-client"
	pCoreKeeper    = modPath + "/modules/tibc/core/keeper"
	pCore          = modPath + "/modules/tibc/core"
	pHost          = modPath + "/modules/tibc/core/24-host"
	pRoutingKeeper = modPath + "/modules/tibc/core/26-routing/keeper"
	pRoutingTypes  = modPath + "/modules/tibc/core/26-routing/types"
	pRouting       = modPath + "/modules/tibc/core/26-routing"
	pCommitment    = modPath + "/modules/tibc/core/23-commitment/types"
	pExported      = modPath + "/modules/tibc/core/exported"
	pPacket        = modPath + "/modules/tibc/core/04-packet"
	pTM            = modPath + "/modules/tibc/light-clients/07-tendermint/types"
	pBSC           = modPath + "/modules/tibc/light-clients/08-bsc/types"
	pETH           = modPath + "/modules/tibc/light-clients/09-eth/types"
	pNFTKeeper     = modPath + "/modules/tibc/apps/nft_transfer/keeper"
	pNFTTypes      = modPath + "/modules/tibc/apps/nft_transfer/types"
	pNFT           = modPath + "/modules/tibc/apps/nft_transfer"
	pMTKeeper      = modPath + "/modules/tibc/apps/mt_transfer/keeper"
	pMTTypes       = modPath + "/modules/tibc/apps/mt_transfer/types"
	pMT            = modPath + "/modules/tibc/apps/mt_transfer"
)

// Method returns the SSA function for method `name` of named type `typ` in package `pkg`
// (value or pointer receiver), or nil.
func (w *World) Method(pkg, typ, name string) *ssa.Function {
	p := w.ByPath[pkg]
	if p == nil {
		return nil
	}
	obj := p.Types.Scope().Lookup(typ)
	if obj == nil {
		return nil
	}
	named, ok := obj.Type().(*types.Named)
	if !ok {
		return nil
	}
	for _, t := range []types.Type{named, types.NewPointer(named)} {
		ms := w.Prog.MethodSets.MethodSet(t)
		if sel := ms.Lookup(p.Types, name); sel != nil {
			fn := w.Prog.MethodValue(sel)
			if fn != nil {
				// unwrap promoted/pointer wrappers to the declared function
				if fn.Synthetic != "" {
					if f, ok := sel.Obj().(*types.Func); ok {
						if d := w.Prog.FuncValue(f); d != nil {
							return d
						}
					}
				}
				return fn
			}
		}
	}
	return nil
}

// Func returns the SSA function for a package-level function.
func (w *World) Func(pkg, name string) *ssa.Function {
	sp := w.SSA[pkg]
	if sp == nil {
		return nil
	}
	return sp.Func(name)
}

// IsProd reports whether fn belongs to the production (consensus) part of the repository.
func (w *World) IsProd(fn *ssa.Function) bool {
	if fn == nil || fn.Pkg == nil {
		return false
	}
	return isProdPath(fn.Pkg.Pkg.Path()) && !w.isGenerated(fn)
}

func isProdPath(path string) bool {
	if !strings.HasPrefix(path, modPath+"/modules/tibc/") {
		return false
	}
	rest := strings.TrimPrefix(path, modPath+"/modules/tibc/")
	if strings.HasPrefix(rest, "testing") {
		return false
	}
	if strings.Contains(rest, "/client/") || strings.HasSuffix(rest, "/client") || strings.HasSuffix(rest, "/simulation") {
		return false
	}
	return true
}

func (w *World) isGenerated(fn *ssa.Function) bool {
	f := w.File(fn.Pos())
	return strings.HasSuffix(f, ".pb.go") || strings.HasSuffix(f, ".pb.gw.go") || strings.HasSuffix(f, ".pulsar.go")
}

// TypesPkg returns the type-checked package with the given import path if some loaded
// package imports it (dependencies are available through export data).
func (w *World) TypesPkg(path string) *types.Package {
	if p := w.ByPath[path]; p != nil {
		return p.Types
	}
	for _, p := range w.ByPath {
		if ip := p.Imports[path]; ip != nil && ip.Types != nil {
			return ip.Types
		}
	}
	return nil
}
