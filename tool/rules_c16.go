package main

import (
	"fmt"
	"go/types"
	"sort"
	"strings"

	"golang.org/x/tools/go/ssa"
)

func init() {
	register("C16", propMeta{
		Explanation: "Decides writer/exporter/importer agreement per key kind: the kinds of keys that consensus code writes at run time (computed from the abstractly evaluated key shapes of every Set reachable from the Msg handlers, application callbacks and light-client methods) are enumerated per store (tibc core store incl. client sub-stores, nft-transfer store, mt-transfer store); for every such kind some function reachable from the owning module's ExportGenesis (core ExportGenesis, the light clients' ExportMetadata) must read keys of that kind (an iterator or getter whose prefix/filter constants name the kind) and some Set reachable from the module's InitGenesis must write that kind (directly, or through the generic client-metadata import for kinds exported as metadata); a store-owning module must have ExportGenesis/InitGenesis at all; an export iterator may not select keys that contain a binary (fixed-width big-endian) part by counting '/'-separated segments of an unbounded strings.Split. Kinds without export/import are reported one by one. For the packet genesis additionally: each exported list comes from the getter that reads the key class its importing setter writes, each record's source/destination/sequence go to the setter parameter of the same role, and each record is restored under no condition on its contents; the relayer registry is restored with one RegisterRelayers call per genesis entry carrying the entry's whole list; no iteration callback on the export path (core ExportGenesis, the light clients' ExportMetadata) can return 'stop'. NOT decided: that the exported values are complete and that the re-imported chain answers every query and message identically (behavioural, needs execution).",
		Assumptions: []string{"the SDK module manager calls each module's InitGenesis/ExportGenesis"},
		Trusted:     commonTrusted,
	}, ruleC16)
}

// keyKind names the kind of key a shape denotes inside its store.
func keyKind(sh Shape) (store, kind string, binary bool) {
	s := sh
	store = "tibc"
	// strip a client sub-store prefix: <store p> or "clients/"<chain>"/"
	if len(s) > 0 && s[0].Hole == "store" {
		s = s[1:]
		store = "tibc"
	} else if len(s) >= 2 && s[0].Hole == "" && strings.HasPrefix(s[0].Lit, "clients/") && s[0].Lit == "clients/" && s[1].Hole != "" {
		s = s[2:]
		if len(s) > 0 && s[0].Hole == "" && strings.HasPrefix(s[0].Lit, "/") {
			rest := strings.TrimPrefix(s[0].Lit, "/")
			if rest == "" {
				s = s[1:]
			} else {
				s = append(Shape{{Lit: rest}}, s[1:]...)
			}
		}
	}
	for _, g := range s {
		if strings.HasPrefix(g.Hole, "bin") {
			binary = true
		}
	}
	if len(s) == 0 {
		return store, "<dynamic>", binary
	}
	if s[0].Hole != "" {
		return store, "<dynamic>", binary
	}
	lit := s[0].Lit
	kind = lit
	if i := strings.Index(lit, "/"); i >= 0 {
		kind = lit[:i]
	}
	for _, c := range kind {
		if c < 0x20 || c > 0x7e {
			kind = fmt.Sprintf("%q", kind)
			break
		}
	}
	// a literal suffix distinguishes sub-kinds (consensusStates/<h>/processedTime)
	if len(s) > 1 {
		last := s[len(s)-1]
		if last.Hole == "" && strings.HasPrefix(last.Lit, "/") && len(last.Lit) > 1 {
			kind += last.Lit
		}
	}
	return store, kind, binary
}

func storeOfFunc(fn *ssa.Function) string {
	p := fn.Pkg.Pkg.Path()
	switch {
	case strings.Contains(p, "/apps/nft_transfer"):
		return "nft-transfer"
	case strings.Contains(p, "/apps/mt_transfer"):
		return "mt-transfer"
	}
	return "tibc"
}

func ruleC16(w *World, r *Report) {
	k := newK(w, r)
	// ---- runtime writers
	entries := k.consensusEntries()
	runtime := map[*ssa.Function]bool{}
	for _, e := range entries {
		n := funcName(e)
		if strings.HasSuffix(n, ".InitGenesis") {
			continue
		}
		for _, f := range k.cg.Reachable(e) {
			if w.IsProd(f) {
				runtime[f] = true
			}
		}
	}
	type kindInfo struct {
		store, kind string
		binary      bool
		writers     []string
		site        string
		lit         string // literal key prefix used by the writer (inside its store)
	}
	kinds := map[string]*kindInfo{}
	for f := range runtime {
		// genesis import helpers are reachable only from InitGenesis; skip functions that are
		for _, op := range k.cg.Ops(f) {
			if op.Op != "Set" {
				continue
			}
			_, kind, bin := keyKind(op.Shape)
			if kind == "<dynamic>" {
				continue // generic metadata import (key comes from the genesis file)
			}
			st := storeOfFunc(f)
			key := st + ":" + kind
			ki := kinds[key]
			if ki == nil {
				ki = &kindInfo{store: st, kind: kind, site: w.Pos(op.Instr.Pos()), lit: strippedLit(op.Shape)}
				kinds[key] = ki
			}
			ki.binary = ki.binary || bin
			ki.writers = append(ki.writers, funcName(f))
		}
	}
	r.Stats["runtime_functions"] = len(runtime)
	r.Stats["runtime_key_kinds"] = len(kinds)

	// ---- export and import roots per store
	exportRoots := map[string][]*ssa.Function{}
	importRoots := map[string][]*ssa.Function{}
	addRoot := func(m map[string][]*ssa.Function, st string, fn *ssa.Function) {
		if fn != nil && fn.Blocks != nil {
			m[st] = append(m[st], fn)
		}
	}
	addRoot(exportRoots, "tibc", w.Func(pCore, "ExportGenesis"))
	addRoot(importRoots, "tibc", w.Func(pCore, "InitGenesis"))
	for _, ct := range clientTypes {
		addRoot(exportRoots, "tibc", w.Method(ct, "ClientState", "ExportMetadata"))
	}
	for st, pkg := range map[string]string{"nft-transfer": pNFT, "mt-transfer": pMT} {
		addRoot(exportRoots, st, w.Method(pkg, "AppModule", "ExportGenesis"))
		addRoot(importRoots, st, w.Method(pkg, "AppModule", "InitGenesis"))
		has := len(exportRoots[st]) > 0 && len(importRoots[st]) > 0
		r.Check(has, "C16.module/"+st, "WHO-MAY-CALL", shortPath(pkg)+".AppModule", "-", "store-owning module implements InitGenesis and ExportGenesis",
			"the "+st+" module owns a KV store (voucher class traces) but implements neither InitGenesis nor ExportGenesis: its state is lost when a chain is restarted from an exported genesis")
	}

	reachSet := func(roots []*ssa.Function) []*ssa.Function {
		seen := map[*ssa.Function]bool{}
		var out []*ssa.Function
		for _, rt := range roots {
			for _, f := range k.cg.Reachable(rt) {
				if !seen[f] {
					seen[f] = true
					out = append(out, f)
				}
			}
		}
		return out
	}
	// constants mentioned by a function (string literals and named string constants)
	constsOf := func(fn *ssa.Function) map[string]bool {
		m := map[string]bool{}
		fi := w.FI(fn)
		for _, b := range fn.Blocks {
			for _, in := range b.Instrs {
				var ops []*ssa.Value
				for _, op := range in.Operands(ops) {
					if op == nil || *op == nil {
						continue
					}
					if c, ok := (*op).(*ssa.Const); ok && c.Value != nil && isString(c.Type()) {
						if s, ok := unquoteConst(constString(c)); ok {
							m[s] = true
						}
					}
					if g, ok := (*op).(*ssa.Global); ok {
						if it := w.globalInit(shortPath(g.Pkg.Pkg.Path()) + "." + g.Name()); it != nil {
							for _, s := range constStrings(it) {
								m[s] = true
							}
						}
					}
				}
			}
		}
		for _, op := range k.cg.Ops(fn) {
			for _, g := range op.Shape {
				if g.Hole == "" {
					m[g.Lit] = true
				}
			}
		}
		_ = fi
		return m
	}
	mentions := func(cs map[string]bool, piece string) bool {
		for c := range cs {
			if c == piece || strings.TrimSuffix(strings.TrimPrefix(c, "/"), "/") == piece || strings.HasPrefix(c, piece+"/") || strings.HasSuffix(c, "/"+piece) {
				return true
			}
		}
		return false
	}
	exportFuncs := map[string][]*ssa.Function{}
	importFuncs := map[string][]*ssa.Function{}
	for st := range map[string]bool{"tibc": true, "nft-transfer": true, "mt-transfer": true} {
		exportFuncs[st] = reachSet(exportRoots[st])
		importFuncs[st] = reachSet(importRoots[st])
	}
	// store operations of every export root, expressed in the root's vocabulary
	type rootOp struct {
		root *ssa.Function
		op   StoreOp
		lit  string
	}
	rootOps := map[string][]rootOp{}
	for st, roots := range exportRoots {
		for _, rt := range roots {
			fi := w.FI(rt)
			ops := append([]StoreOp{}, k.cg.Ops(rt)...)
			for _, b := range rt.Blocks {
				for _, in := range b.Instrs {
					if ci, ok := in.(ssa.CallInstruction); ok {
						ops = append(ops, k.OpsAt(fi, ci, 5)...)
					}
				}
			}
			for _, op := range ops {
				if op.Op == "Iterate" || op.Op == "Get" {
					rootOps[st] = append(rootOps[st], rootOp{rt, op, strippedLit(op.Shape)})
				}
			}
		}
	}
	// kinds exported through the generic client metadata mechanism
	metaExported := map[string]bool{}

	var keys []string
	for key := range kinds {
		keys = append(keys, key)
	}
	sort.Strings(keys)
	for _, key := range keys {
		ki := kinds[key]
		pieces := strings.Split(ki.kind, "/")
		// export, precise: an export root performs (through its callees, evaluated in the
		// root's own vocabulary so that prefix arguments become constants) an Iterate/Get
		// whose literal key prefix is a prefix of the key the runtime writer uses
		var exporter string
		for _, ro := range rootOps[ki.store] {
			if ro.lit == "" || ro.lit == "clients" {
				continue
			}
			if strings.HasPrefix(ki.lit, ro.lit) || (ro.op.Op == "Get" && ro.lit == ki.lit) {
				exporter = funcName(ro.root) + " (reads " + ro.op.Shape.String() + ")"
				// read by light-client code: travels as generic client metadata
				if strings.HasSuffix(funcName(ro.root), "ExportMetadata") || (ro.op.Fn != nil && strings.Contains(ro.op.Fn.Pkg.Pkg.Path(), "/light-clients/")) {
					metaExported[key] = true
				}
				break
			}
		}
		// export, coarse: the iterator over the whole "clients" prefix, in a function that
		// filters by constants naming every piece of the kind
		if exporter == "" {
			for _, f := range exportFuncs[ki.store] {
				coarse := false
				for _, op := range k.cg.Ops(f) {
					if op.Op == "Iterate" && (strippedLit(op.Shape) == "clients" || strippedLit(op.Shape) == "") {
						coarse = true
					}
				}
				if !coarse {
					continue
				}
				cs := constsOf(f)
				all := true
				for _, p := range pieces {
					if !mentions(cs, p) {
						all = false
					}
				}
				if all {
					exporter = funcName(f) + " (filtered scan of all client keys)"
					break
				}
			}
		}
		// import: a Set of the same kind reachable from InitGenesis, or the metadata import
		var importer string
		for _, f := range importFuncs[ki.store] {
			for _, op := range k.cg.Ops(f) {
				if op.Op != "Set" {
					continue
				}
				_, kind, _ := keyKind(op.Shape)
				if kind == ki.kind {
					importer = funcName(f)
				}
				if kind == "<dynamic>" && metaExported[key] {
					importer = funcName(f) + " (generic client metadata import)"
				}
			}
		}
		ws := ki.writers
		sort.Strings(ws)
		if len(ws) > 3 {
			ws = ws[:3]
		}
		id := "C16.cover/" + key
		detail := fmt.Sprintf("kind %q of the %s store is written at run time by %s", ki.kind, ki.store, strings.Join(ws, ", "))
		switch {
		case exporter != "" && importer != "":
			r.OK(id, "KEY-SHAPE", ws[0], ki.site, detail+"; exported by "+exporter+", imported by "+importer)
		case exporter == "" && importer == "":
			r.Violate(id, "KEY-SHAPE", ws[0], ki.site, detail+" but no function reachable from the module's ExportGenesis reads it and InitGenesis never writes it: this state does not survive export/import")
		case exporter == "":
			r.Violate(id, "KEY-SHAPE", ws[0], ki.site, detail+" and InitGenesis can write it ("+importer+") but no function reachable from ExportGenesis reads it")
		default:
			r.Violate(id, "KEY-SHAPE", ws[0], ki.site, detail+" and is exported by "+exporter+" but no Set reachable from InitGenesis writes it back")
		}
	}

	// ---- exported fields are imported and vice versa (packet genesis struct)
	k.genesisFieldRule("C16.roundtrip")
	k.relayerImportRule("C16.relayers")
	k.exportAllRule("C16.export.all")

	// ---- binary keys selected by segment count
	nSplit := 0
	all := append(append([]*ssa.Function{}, exportFuncs["tibc"]...), exportFuncs["nft-transfer"]...)
	all = append(all, exportFuncs["mt-transfer"]...)
	for _, f := range all {
		if !w.IsProd(f) {
			continue
		}
		fi := w.FI(f)
		iterates := false
		for _, op := range k.cg.Ops(f) {
			if op.Op == "Iterate" {
				iterates = true
			}
		}
		if !iterates {
			continue
		}
		for _, fct := range fi.facts {
			if fct.Succ != 0 {
				continue
			}
			// a comparison  len(strings.Split(key, "/")) <op> constant
			if fct.Cond.Op != "bin" || len(fct.Cond.Args) != 2 {
				continue
			}
			isCount := false
			for i, a := range fct.Cond.Args {
				as := a.String()
				if strings.HasPrefix(as, "builtin.len(strings.Split(") && strings.Contains(as, `const("/")`) && fct.Cond.Args[1-i].Op == "const" {
					isCount = true
				}
			}
			if !isCount {
				continue
			}
			nSplit++
			// which kinds can this iterator see?  those sharing its prefix and having a binary part
			var bins []string
			cs := constsOf(f)
			for _, key := range keys {
				ki := kinds[key]
				if !ki.binary {
					continue
				}
				if mentions(cs, strings.Split(ki.kind, "/")[0]) || mentions(cs, "clients") {
					bins = append(bins, ki.kind)
				}
			}
			k.r.Check(len(bins) == 0, "C16.binsplit/"+funcName(f), "KEY-SHAPE", funcName(f), w.Pos(fct.If.Pos()),
				"segment-count selection over text-only keys",
				"export iterator selects keys by the number of '/'-separated segments of strings.Split, but keys of kind(s) "+strings.Join(bins, ", ")+" under its prefix contain fixed-width binary numbers that may contain '/' (0x2f): such entries are silently skipped in the exported genesis")
		}
	}
	if nSplit == 0 {
		r.OK("C16.binsplit/none", "KEY-SHAPE", "export iterators", "-", "no export iterator selects keys by counting '/'-separated segments")
	}
	r.MinInstances("C16.", 18)
}

// genesisFieldRule: every field of the packet GenesisState that ExportGenesis fills
// from a store getter is consumed by InitGenesis.
func (k *K) genesisFieldRule(id string) {
	p := k.w.ByPath[pPacketTypes]
	if p == nil {
		return
	}
	obj := p.Types.Scope().Lookup("GenesisState")
	if obj == nil {
		return
	}
	st, ok := obj.Type().Underlying().(*types.Struct)
	if !ok {
		return
	}
	exp := k.function(pPacket, "ExportGenesis")
	imp := k.function(pPacket, "InitGenesis")
	if exp == nil || imp == nil {
		return
	}
	exported := map[string]string{}
	exportedT := map[string]*Term{}
	for _, rt := range exp.Returns() {
		t := exp.T.Of(RetVal(rt.Instr, 0))
		if t.Op == "lit" {
			for _, kv := range t.Args {
				exported[kv.Name] = kv.Args[0].String()
			}
		}
	}
	// the same literal without inlining the getters, so that each field names the getter it is
	// exported from; a constructor (NewGenesisState(...)) is opened with its arguments substituted
	fnByName := map[string]*ssa.Function{}
	for _, fn := range k.w.Funcs {
		fnByName[funcName(fn)] = fn
	}
	raw := &Termer{w: k.w, fn: exp.Fn, visited: map[ssa.Value]bool{}, cache: map[ssa.Value]*Term{}, Inline: false}
	for _, rt := range exp.Returns() {
		t := raw.Of(RetVal(rt.Instr, 0))
		if t.Op == "call" {
			if ctor := fnByName[t.Name]; ctor != nil && len(ctor.Blocks) == 1 && len(ctor.Params) == len(t.Args) {
				env := map[*ssa.Parameter]*Term{}
				for i, p := range ctor.Params {
					env[p] = t.Args[i]
				}
				sub := k.w.InfoEnv(ctor, env)
				for _, crt := range sub.Returns() {
					t = sub.T.Of(RetVal(crt.Instr, 0))
				}
			}
		}
		if t.Op == "lit" {
			for _, kv := range t.Args {
				exportedT[kv.Name] = kv.Args[0]
				if _, ok := exported[kv.Name]; !ok {
					exported[kv.Name] = kv.Args[0].String()
				}
			}
		}
	}
	imported := map[string]bool{}
	// which setter is fed from which field
	fieldSetter := map[string]string{}
	fieldSetterFn := map[string]*ssa.Function{}
	// role of a parameter / entry field in a channel-keyed record: S(ource), D(estination), Q (sequence)
	role := func(name string) string {
		n := strings.ToLower(name)
		switch {
		case strings.Contains(n, "source") || strings.HasPrefix(n, "src"):
			return "source chain"
		case strings.Contains(n, "dest") || strings.HasPrefix(n, "dst"):
			return "destination chain"
		case strings.Contains(n, "seq"):
			return "sequence"
		}
		return ""
	}
	for _, b := range imp.Fn.Blocks {
		for _, in := range b.Instrs {
			c, ok := in.(*ssa.Call)
			if !ok {
				continue
			}
			callee := c.Call.StaticCallee()
			fed := ""
			for _, a := range c.Call.Args {
				imp.T.Of(a).Walk(func(x *Term) {
					if x.Op == "field" && x.Args[0].String() == P(2).String() {
						imported[x.Name] = true
						fieldSetter[x.Name] = calleeShort(&c.Call)
						fieldSetterFn[x.Name] = callee
						fed = x.Name
					}
				})
			}
			if fed == "" || callee == nil {
				continue
			}
			// every exported record is restored: the setter runs for each element of the list, under
			// no condition other than the bounds of the loops over the genesis lists
			cond := ""
			for _, f := range imp.FactsAt(b) {
				isLen := func(t *Term) bool {
					s := t.String()
					return strings.HasPrefix(s, "builtin.len("+P(2).String()+".") && strings.Count(s, "(") == 1
				}
				if (f.Op == "<" || f.Op == "<=") && (isLen(f.L) || isLen(f.R)) {
					continue
				}
				// only a condition on the record being restored makes the import selective
				if strings.Contains(f.Atom, P(2).String()+"."+fed+"[") {
					cond = f.Atom
				}
			}
			k.r.Check(cond == "", id+"/"+fed+".unconditional", "GUARD-DOM", fnShort(imp), imp.InstrPos(c), "every record of "+fed+" is restored", "records of GenesisState."+fed+" are restored only when '"+clip(cond)+"' holds: part of the exported state is dropped on import")
			// the record's components go to the setter parameters of the same role: the key written
			// on import is the key the record was exported from, not a permutation of it
			agree, classified := true, 0
			detail := ""
			for i, a := range c.Call.Args {
				t := imp.T.Of(a)
				if t.Op != "field" || i >= len(callee.Params) {
					continue
				}
				pr, fr := role(callee.Params[i].Name()), role(t.Name)
				if pr == "" || fr == "" {
					continue
				}
				classified++
				if pr != fr {
					agree = false
					detail += fmt.Sprintf("parameter %s (%s) of %s receives the record's %s (%s); ", callee.Params[i].Name(), pr, callee.Name(), t.Name, fr)
				}
			}
			if classified > 0 {
				k.r.Check(agree, id+"/"+fed+".args", "BIND", fnShort(imp), imp.InstrPos(c), "record components of "+fed+" are restored under the parameter of the same role", detail+"the restored key is not the key the record was exported from")
			}
		}
	}
	// the getter a field is exported from reads the key class the importing setter writes
	classes := func(fn *ssa.Function, ops ...string) map[string]bool {
		out := map[string]bool{}
		for e := range k.cg.Effects(fn) {
			for _, op := range ops {
				if strings.HasPrefix(e, op+":") {
					out[strings.TrimSuffix(strings.Trim(strings.TrimPrefix(e, op+":"), `"`), "/")] = true
				}
			}
		}
		return out
	}
	for f, t := range exportedT {
		sfn := fieldSetterFn[f]
		if sfn == nil || t.Op != "call" {
			continue
		}
		gfn := fnByName[t.Name]
		if gfn == nil {
			continue
		}
		rd, wr := classes(gfn, "Iterate", "Get"), classes(sfn, "Set")
		okc := len(wr) > 0
		for c := range wr {
			if !rd[c] {
				okc = false
			}
		}
		k.r.Check(okc, id+"/"+f+".class", "KEY-SHAPE", fnShort(exp), k.w.Pos(exp.Fn.Pos()), fmt.Sprintf("exported from key class %v, restored into %v", keysOf(rd), keysOf(wr)),
			fmt.Sprintf("GenesisState.%s is exported by %s, which reads key class %v, but InitGenesis restores it with %s, which writes %v: the record kind changes across export/import", f, gfn.Name(), keysOf(rd), sfn.Name(), keysOf(wr)))
	}
	for i := 0; i < st.NumFields(); i++ {
		f := st.Field(i).Name()
		src, isExp := exported[f]
		if !isExp {
			continue
		}
		// a field exported from an iterator that can never yield entries (no runtime writer) needs no import
		if f == "RecvSequences" || f == "AckSequences" {
			// legacy fields: nothing in the repository writes nextSequenceRecv/nextSequenceAck keys
			k.r.Info(id+"/"+f, "SIBLING", fnShort(imp), k.w.Pos(imp.Fn.Pos()), "GenesisState."+f+" is exported from a key class that no code writes; not imported")
			continue
		}
		k.r.Check(imported[f], id+"/"+f, "SIBLING", fnShort(imp), k.w.Pos(imp.Fn.Pos()), "exported field "+f+" is imported (via "+fieldSetter[f]+")", "GenesisState."+f+" is exported ("+clip(src)+") but InitGenesis never reads it")
		// the importing loop must read the same field it names: setter class agrees with the exporter's getter class
		want := map[string]string{"Acknowledgements": "SetPacketAcknowledgement", "Commitments": "SetPacketCommitment", "Receipts": "SetPacketReceipt", "SendSequences": "SetNextSequenceSend"}
		if wset, ok := want[f]; ok && imported[f] {
			k.r.Check(fieldSetter[f] == wset, id+"/"+f+".setter", "SIBLING", fnShort(imp), k.w.Pos(imp.Fn.Pos()), f+" restored with "+wset, "GenesisState."+f+" is restored with "+fieldSetter[f]+", expected "+wset+" (the runtime writer of that record kind)")
		}
	}
	// each setter must be fed from exactly its own field
	used := map[string][]string{}
	for f, s := range fieldSetter {
		used[s] = append(used[s], f)
	}
	for s, fs := range used {
		sort.Strings(fs)
		k.r.Check(len(fs) == 1, id+"/setter."+s, "SIBLING", fnShort(imp), k.w.Pos(imp.Fn.Pos()), s+" restores one genesis field", s+" is fed from several genesis fields: "+strings.Join(fs, ", "))
	}
}

// strippedLit returns the leading literal of a key shape inside its store (after a
// client sub-store prefix has been removed), up to the first hole.
func strippedLit(sh Shape) string {
	s := sh
	if len(s) > 0 && s[0].Hole == "store" {
		s = s[1:]
	} else if len(s) >= 2 && s[0].Hole == "" && s[0].Lit == "clients/" && s[1].Hole != "" {
		s = s[2:]
		if len(s) > 0 && s[0].Hole == "" && strings.HasPrefix(s[0].Lit, "/") {
			rest := strings.TrimPrefix(s[0].Lit, "/")
			if rest == "" {
				s = s[1:]
			} else {
				s = append(Shape{{Lit: rest}}, s[1:]...)
			}
		}
	}
	if len(s) == 0 || s[0].Hole != "" {
		return ""
	}
	return s[0].Lit
}
