package main

import (
	"fmt"
	"strings"

	"golang.org/x/tools/go/ssa"
)

var clientTypes = []string{pTM, pBSC, pETH}

func ctName(ct string) string {
	switch ct {
	case pTM:
		return "tendermint"
	case pBSC:
		return "bsc"
	case pETH:
		return "eth"
	}
	return shortPath(ct)
}

// valueKinds: which claimed value each Verify* method proves and which key class.
var verifyMethods = map[string]struct{ class string }{
	"VerifyPacketCommitment":      {"commitments"},
	"VerifyPacketAcknowledgement": {"acks"},
	"VerifyPacketCleanCommitment": {"clean"},
}

// findKeyShapes collects the maximal subterms of t that evaluate to a key shape with a
// literal class (e.g. "commitments/..").
func (w *World) findKeyShapes(t *Term) []Shape {
	var out []Shape
	var walk func(x *Term)
	walk = func(x *Term) {
		if x == nil {
			return
		}
		if x.Op == "call" && (x.Name == "fmt.Sprintf" || x.Name == "builtin.append") || x.Op == "bin" && x.Name == "+" {
			sh := w.ShapeOf(x)
			if len(sh) > 0 && sh[0].Hole == "" && len(sh.HoleTerms()) > 0 {
				out = append(out, sh)
				return
			}
		}
		for _, a := range x.Args {
			walk(a)
		}
	}
	walk(t)
	return out
}

// clientVerifyRule checks one Verify* method of one client type:
//
//	.height     success requires !(latestHeight < proofHeight)
//	.consensus  success requires the consensus state fetched from the given store at the proof height
//	.delay      success requires the client's confirmation delay to have elapsed
//	.member     success passes the membership call, with root from that consensus state,
//	            key derived from (source,dest[,sequence]) in the protocol key class, and the claimed value
func (k *K) clientVerifyRule(prefix, ct, method string) {
	fi := k.method(ct, "ClientState", method)
	if fi == nil {
		return
	}
	id := func(part string) string { return fmt.Sprintf("%s.%s/%s.%s", prefix, part, ctName(ct), method) }
	fn := fnShort(fi)
	site := k.w.Pos(fi.Fn.Pos())
	cls := verifyMethods[method].class
	// parameter roles by position in the exported.ClientState interface
	np := len(fi.Fn.Params)
	if k.r.BrokenIf(np < 9, "%s: unexpected parameter count %d", fn, np) {
		return
	}
	cs, store, height, proof, src, dst, seq := P(0), P(2), P(4), P(5), P(6), P(7), P(8)
	_ = proof
	var value string
	if method == "VerifyPacketCleanCommitment" {
		// Tendermint proves the stored bytes themselves (8-byte big-endian sequence); the
		// EVM-style clients prove a 32-byte storage word holding the same number
		value = "github.com/cosmos/cosmos-sdk/types.Uint64ToBigEndian(" + seq.String() + ")"
		if ct != pTM {
			value = "github.com/ethereum/go-ethereum/common.LeftPadBytes(" + value + ",const(32))"
		}
	} else {
		value = P(9).String()
	}

	// --- height bound
	latest := k.w.TermOfCall(k.w.Method(ct, "ClientState", "GetLatestHeight"), cs).String()
	h := height.String()
	heightOK := map[string]bool{
		"!" + latest + ".LT(" + h + ")": true,
		latest + ".GTE(" + h + ")":      true,
		"!" + h + ".GT(" + latest + ")": true,
		h + ".LTE(" + latest + ")":      true,
	}
	ok, ret := k.successRequires(fi, func(f Fact) bool { return heightOK[f.Atom] }, 3)
	k.r.Check(ok, id("height"), "MUST-PASS", fn, site,
		"every success path passes the check latestHeight >= proofHeight",
		"a success path does not pass the check 'client latest height ("+latest+") >= proof height' — offending return at "+retPos(fi, ret))

	// --- consensus state at the proof height from the given store
	gcs := k.w.Func(ct, "GetConsensusState")
	if k.r.BrokenIf(gcs == nil, "%s.GetConsensusState not found", shortPath(ct)) {
		return
	}
	csCall := funcName(gcs) + "("
	isCS := func(t *Term) bool {
		// GetConsensusState(store, cdc, height) with our store and height
		return t.Op == "call" && t.Name == funcName(gcs) && len(t.Args) == 3 && t.Args[0].String() == store.String() && t.Args[2].String() == h
	}
	ok, ret = k.successRequires(fi, func(f Fact) bool {
		if f.Op != "==" {
			return false
		}
		for _, side := range []*Term{f.L, f.R} {
			if side.Op == "extract" && isCS(side.Args[0]) {
				other := f.R
				if side == f.R {
					other = f.L
				}
				return other.Op == "nil"
			}
		}
		return false
	}, 3)
	k.r.Check(ok, id("consensus"), "MUST-PASS", fn, site,
		"every success path has fetched "+csCall+"store, cdc, proofHeight) without error",
		"a success path does not fetch the consensus state at the proof height from the given client store — offending return at "+retPos(fi, ret))

	// --- delay
	switch ct {
	case pTM:
		delay := k.w.TermOfCall(k.w.Method(ct, "ClientState", "GetDelayTime"), cs).String()
		gpt := k.w.Func(ct, "GetProcessedTime")
		pt := ""
		if gpt != nil {
			pt = funcName(gpt) + "(" + store.String() + "," + h + ")#0"
		}
		ok, ret = k.successRequires(fi, func(f Fact) bool {
			// (processed + delay) <= now(BlockTime in ns)
			if f.Op != "<=" || f.L.Op != "bin" || f.L.Name != "+" {
				return false
			}
			a, b := f.L.Args[0].String(), f.L.Args[1].String()
			if !((a == pt && b == delay) || (a == delay && b == pt)) {
				return false
			}
			return f.R.Contains("(github.com/cosmos/cosmos-sdk/types.Context).BlockTime($1)") && strings.Contains(f.R.String(), "UnixNano")
		}, 3)
		k.r.Check(ok, id("delay"), "MUST-PASS", fn, site,
			"every success path passes processedTime(store, proofHeight) + "+delay+" <= blockTime(ns)",
			"a success path does not pass the time-delay check 'processedTime(proofHeight) + delay <= block time' — offending return at "+retPos(fi, ret))
	default:
		delay := k.w.TermOfCall(k.w.Method(ct, "ClientState", "GetDelayBlock"), cs).String()
		ok, ret = k.successRequires(fi, func(f Fact) bool {
			// delayBlocks <= latest.RevisionHeight - proofHeight.RevisionHeight
			if f.Op != "<=" || f.L.String() != delay {
				return false
			}
			if f.R.Op != "bin" || f.R.Name != "-" {
				return false
			}
			return strings.HasPrefix(f.R.Args[0].String(), latest) && f.R.Args[1].String() == h+".GetRevisionHeight()"
		}, 3)
		k.r.Check(ok, id("delay"), "MUST-PASS", fn, site,
			"every success path passes "+delay+" <= latestHeight - proofHeight",
			"a success path does not pass the block-delay check 'latest height - proof height >= delay blocks' — offending return at "+retPos(fi, ret))
	}

	// --- membership call
	var members []*ssa.Call
	for _, b := range fi.Fn.Blocks {
		for _, in := range b.Instrs {
			c, isCall := in.(*ssa.Call)
			if !isCall {
				continue
			}
			if methodCall(&c.Call, "VerifyMembership") {
				members = append(members, c)
			} else if f := c.Call.StaticCallee(); f != nil && f.Name() == "verifyMerkleProof" {
				members = append(members, c)
			}
		}
	}
	if len(members) == 0 {
		k.r.Violate(id("member"), "MUST-PASS", fn, site, "no membership verification call (VerifyMembership / verifyMerkleProof) found")
		return
	}
	ok, ret = k.successPassesCall(fi, members)
	k.r.Check(ok, id("member"), "MUST-PASS", fn, site,
		"every success path passes the membership verification",
		"a success path does not pass the membership verification — offending return at "+retPos(fi, ret))
	for _, m := range members {
		msite := fi.InstrPos(m)
		var rootT, keyT, valT, proofT *Term
		if methodCall(&m.Call, "VerifyMembership") {
			a := CallArgs(&m.Call) // specs, root, path, value
			if len(a) < 4 {
				k.r.Undecided(id("member.args"), "BIND", fn, msite, "unexpected VerifyMembership arity")
				continue
			}
			proofT = fi.T.Of(CallRecv(&m.Call))
			rootT, keyT, valT = fi.T.Of(a[1]), fi.T.Of(a[2]), fi.T.Of(a[3])
			// the store the key is looked up in is the one this client was created for: the path is
			// ApplyPrefix(<the client state's own Merkle prefix>, <one protocol key>), not a path
			// under a fixed store name
			pfxOK := keyT.Op == "extract" && keyT.Name == "0" && len(keyT.Args) == 1 && keyT.Args[0].Op == "call" &&
				strings.HasSuffix(keyT.Args[0].Name, "types.ApplyPrefix") && len(keyT.Args[0].Args) == 2 &&
				(keyT.Args[0].Args[0].String() == FieldT(cs, "MerklePrefix").String() || strings.Contains(keyT.Args[0].Args[0].String(), "GetPrefix("+cs.String()+")"))
			k.r.Check(pfxOK, id("member.prefix"), "BIND", fn, msite, "key path = ApplyPrefix(clientState.MerklePrefix, protocol key)",
				"the proven path "+clip(keyT.String())+" is not ApplyPrefix(this client's Merkle prefix, key): the key is looked up under a store name that is not the one the client was configured with")
		} else {
			a := m.Call.Args // proof, consensusState, contractAddr, value, key
			if len(a) < 5 {
				k.r.Undecided(id("member.args"), "BIND", fn, msite, "unexpected verifyMerkleProof arity")
				continue
			}
			proofT, rootT, valT, keyT = fi.T.Of(a[0]), fi.T.Of(a[1]), fi.T.Of(a[3]), fi.T.Of(a[4])
			contract := fi.T.Of(a[2]).String()
			k.r.Check(contract == FieldT(cs, "ContractAddress").String(), id("member.contract"), "BIND", fn, msite,
				"contract address = clientState.ContractAddress", "contract address argument is "+contract)
		}
		// root must come from the consensus state at (store, height): directly or via produceVerificationArgs(store,..,height,..)
		rootOK := rootT.Mentions(func(x *Term) bool {
			if isCS(x) {
				return true
			}
			if x.Op == "call" && strings.HasSuffix(x.Name, ".produceVerificationArgs") {
				hasStore, hasH := false, false
				for _, a := range x.Args {
					if a.String() == store.String() {
						hasStore = true
					}
					if a.String() == h {
						hasH = true
					}
				}
				return hasStore && hasH
			}
			return false
		})
		k.r.Check(rootOK, id("member.root"), "BIND", fn, msite,
			"root comes from the consensus state at (store, proofHeight)", "root argument "+clip(rootT.String())+" is not derived from the consensus state at (store, proofHeight)")
		proofOK := proofT.Mentions(func(x *Term) bool { return x.String() == P(5).String() })
		k.r.Check(proofOK, id("member.proof"), "BIND", fn, msite,
			"proof object decoded from the submitted proof bytes", "proof object "+clip(proofT.String())+" does not derive from the submitted proof bytes")
		// key: exactly one protocol key shape of the right class with holes (src,dst[,seq])
		shapes := k.w.findKeyShapes(keyT)
		wantHoles := []string{src.String(), dst.String()}
		if cls != "clean" {
			wantHoles = append(wantHoles, seq.String())
		}
		keyOK := len(shapes) == 1 && shapes[0].Class() == cls && strings.Join(shapes[0].HoleTerms(), ",") == strings.Join(wantHoles, ",")
		desc := "none"
		if len(shapes) > 0 {
			desc = shapes[0].String()
		}
		k.r.Check(keyOK, id("member.key"), "KEY-SHAPE", fn, msite,
			"proven key "+desc, fmt.Sprintf("proven key shape is %s; expected class %q with holes (%s)", desc, cls, strings.Join(wantHoles, ",")))
		k.r.Check(valT.String() == value, id("member.value"), "BIND", fn, msite,
			"claimed value = "+value, "claimed value argument is "+clip(valT.String())+", expected "+value)
	}
}

func clip(s string) string {
	if len(s) > 160 {
		return s[:160] + "…"
	}
	return s
}

func retPos(fi *FnInfo, r *ssa.Return) string {
	if r == nil {
		return "-"
	}
	return fi.InstrPos(r)
}

func (k *K) merkleRule(id string) {
	// verifyChainedMembershipProof: success only past root equality and per-proof ics23 membership
	fi := k.function(pCommitment, "verifyChainedMembershipProof")
	if fi == nil {
		return
	}
	fn := fnShort(fi)
	site := k.w.Pos(fi.Fn.Pos())
	// params: root []byte, specs, proofs, keys, value []byte, index int
	root := P(0).String()
	ok, ret := k.successRequires(fi, func(f Fact) bool {
		// bytes.Equal(root, subroot) true
		return f.Op == "true" && f.L.Op == "call" && f.L.Name == "bytes.Equal" && (f.L.Args[0].String() == root || f.L.Args[1].String() == root)
	}, 1)
	k.r.Check(ok, id+"/root-equal", "MUST-PASS", fn, site,
		"success requires the last computed sub-root to equal the consensus root",
		"a success path does not compare the computed root with the given root — offending return at "+retPos(fi, ret))
	// every ics23.VerifyMembership call (in the function or in a same-package helper it calls):
	// a false result leads only to failure, and a failure of the helper is a failure here
	n := 0
	for _, sc := range k.scopes(fi, 1) {
		sfi := sc.Fi
		for _, b := range sfi.Fn.Blocks {
			for _, in := range b.Instrs {
				c, isCall := in.(*ssa.Call)
				if !isCall {
					continue
				}
				f := c.Call.StaticCallee()
				if f == nil || funcName(f) != "github.com/cosmos/ics23/go.VerifyMembership" {
					continue
				}
				n++
				atomTrue := sfi.T.Of(c).String()
				// the call sits inside a loop, so the necessary condition checked is: the false
				// edge leads only to failure returns (of the function that contains the call)
				bad := ""
				hasCheck := false
				for _, fct := range sfi.facts {
					if fct.Atom == atomTrue || fct.Atom == "!"+atomTrue {
						hasCheck = true
					}
					if fct.Atom == "!"+atomTrue && !failsOnly(sfi, fct.If.Block().Succs[fct.Succ]) {
						bad = sfi.InstrPos(fct.If)
					}
				}
				// helper: its error must be branched on by the caller and the non-nil edge must only fail
				if oc, ok := sc.Outer.(*ssa.Call); sc.Outer != nil {
					prop := false
					if ok {
						et := fi.ErrTermOfCall(oc)
						for _, fct := range fi.facts {
							if fct.Op == "!=" && ((fct.L.String() == et && fct.R.Op == "nil") || (fct.R.String() == et && fct.L.Op == "nil")) && failsOnly(fi, fct.If.Block().Succs[fct.Succ]) {
								prop = true
							}
						}
					}
					if !prop {
						bad = fi.InstrPos(sc.Outer) + " (the helper's error is not propagated)"
					}
				}
				k.r.Check(hasCheck && bad == "", id+"/ics23-result", "GUARD-DOM", fnShort(sfi), sfi.InstrPos(c),
					"the boolean result of ics23.VerifyMembership is branched on and its false edge only fails",
					"the result of ics23.VerifyMembership is not checked (or its false edge can reach success at "+bad+")")
				// key/value/root arguments come from the function's parameters / computed subroot
				a := c.Call.Args // spec, root, proof, key, value
				if len(a) >= 5 {
					kt := sfi.T.Of(a[3])
					k.r.Check(kt.Contains(P(3).String()), id+"/ics23-key", "BIND", fnShort(sfi), sfi.InstrPos(c),
						"key comes from the key path parameter", "key argument "+clip(kt.String())+" does not come from the key path parameter")
				}
			}
		}
	}
	if n == 0 {
		k.r.Violate(id+"/ics23-call", "MUST-PASS", fn, site, "no call to ics23.VerifyMembership found")
	}
	// the key looked up in the proof is the key-path element the verifier derived from the
	// packet: MerklePath.GetKey must return the element unchanged for every string a store key
	// can be made of (identifier alphabet, '/' and digits). The returned term is evaluated with
	// the analyser's own copy of the pure library functions it uses (net/url escaping).
	if gk := k.method(pCommitment, "MerklePath", "GetKey"); gk != nil {
		elem := FieldT(P(0), "KeyPath").String() + "[" + P(1).String() + "]"
		var probs []string
		undecided := ""
		nret := 0
		for _, rt := range gk.Returns() {
			if rt.Kind == RetFail {
				continue
			}
			nret++
			t := gk.T.Of(RetVal(rt.Instr, 0))
			for _, c := range append(c12Alphabet(), '/') {
				in := "x" + strings.Repeat(string(c), 2) + "y"
				out, ok := evalStringTerm(t, elem, in)
				if !ok {
					undecided = clip(t.String())
					break
				}
				if out != in {
					probs = append(probs, fmt.Sprintf("key-path element %q is looked up as %q", in, out))
				}
			}
		}
		if undecided != "" || nret == 0 {
			k.r.Undecided(id+"/key-identity", "CONST-EVAL", fnShort(gk), k.w.Pos(gk.Fn.Pos()), "cannot evaluate the key returned by GetKey: "+undecided)
		} else {
			if len(probs) > 3 {
				probs = append(probs[:3], fmt.Sprintf("... and %d more", len(probs)-3))
			}
			k.r.Check(len(probs) == 0, id+"/key-identity", "CONST-EVAL", fnShort(gk), k.w.Pos(gk.Fn.Pos()), "GetKey returns the key-path element unchanged for every character a store key can contain",
				"the key proven differs from the key the sender wrote: "+strings.Join(probs, "; "))
		}
	}
	// MerkleProof.VerifyMembership reaches success only through verifyChainedMembershipProof
	vm := k.method(pCommitment, "MerkleProof", "VerifyMembership")
	if vm != nil {
		var chained []*ssa.Call
		for _, b := range vm.Fn.Blocks {
			for _, in := range b.Instrs {
				if c, isCall := in.(*ssa.Call); isCall {
					if f := c.Call.StaticCallee(); f != nil && f.Name() == "verifyChainedMembershipProof" {
						chained = append(chained, c)
					}
				}
			}
		}
		ok, ret := k.successPassesCall(vm, chained)
		k.r.Check(len(chained) > 0 && ok, id+"/chained", "MUST-PASS", fnShort(vm), k.w.Pos(vm.Fn.Pos()),
			"MerkleProof.VerifyMembership succeeds only through verifyChainedMembershipProof",
			"MerkleProof.VerifyMembership can succeed without verifyChainedMembershipProof — offending return at "+retPos(vm, ret))
		// argument validation: one key per proof spec, one proof per spec, non-empty value
		var vas []*ssa.Call
		for _, c := range callsNamed(vm, "validateVerificationArgs") {
			vas = append(vas, c)
		}
		okVA, retVA := k.successPassesCall(vm, vas)
		k.r.Check(len(vas) > 0 && okVA, id+"/args-validated", "MUST-PASS", fnShort(vm), k.w.Pos(vm.Fn.Pos()), "success passes validateVerificationArgs(specs, root)", "VerifyMembership can succeed without validateVerificationArgs — at "+retPos(vm, retVA))
		okLen, retLen := k.successRequires(vm, func(f Fact) bool {
			if f.Op != "==" {
				return false
			}
			a, b := f.L.String(), f.R.String()
			specs := "builtin.len(" + P(1).String() + ")"
			isKP := func(s string) bool { return strings.HasPrefix(s, "builtin.len(") && strings.Contains(s, "KeyPath") }
			return (a == specs && isKP(b)) || (b == specs && isKP(a))
		}, 0)
		k.r.Check(okLen, id+"/path-length", "MUST-PASS", fnShort(vm), k.w.Pos(vm.Fn.Pos()), "success requires len(path.KeyPath) == len(specs)", "VerifyMembership can succeed with a key path whose length differs from the number of proof specs — at "+retPos(vm, retLen))
		okVal, retVal := k.successRequires(vm, func(f Fact) bool {
			l := "builtin.len(" + P(4).String() + ")"
			return (f.Op == "!=" && ((f.L.String() == l && f.R.String() == "const(0)") || (f.R.String() == l && f.L.String() == "const(0)"))) || (f.Op == "<" && f.L.String() == "const(0)" && f.R.String() == l)
		}, 0)
		k.r.Check(okVal, id+"/value-nonempty", "MUST-PASS", fnShort(vm), k.w.Pos(vm.Fn.Pos()), "success requires a non-empty value", "VerifyMembership can succeed for an empty value — at "+retPos(vm, retVal))
		if va := k.method(pCommitment, "MerkleProof", "validateVerificationArgs"); va != nil {
			okN, retN := k.successRequires(va, func(f Fact) bool {
				if f.Op != "==" {
					return false
				}
				a, b := f.L.String(), f.R.String()
				pl, sl := "builtin.len("+P(0).String()+".Proofs)", "builtin.len("+P(1).String()+")"
				return (a == pl && b == sl) || (a == sl && b == pl)
			}, 1)
			k.r.Check(okN, id+"/proofs-per-spec", "MUST-PASS", fnShort(va), k.w.Pos(va.Fn.Pos()), "success requires len(proof.Proofs) == len(specs)", "validateVerificationArgs can succeed when the number of proofs differs from the number of specs (a shorter chain would skip a store level) — at "+retPos(va, retN))
		}
		for _, c := range chained {
			a := termsOf(vm, c.Call.Args) // root.GetHash(), specs, proofs, keys, value, 0
			if len(a) >= 6 {
				k.r.Check(a[5] == "const(0)", id+"/chained-index", "BIND", fnShort(vm), vm.InstrPos(c), "chain verified from index 0", "chained verification starts at index "+a[5]+" instead of 0 (leading proofs would be skipped)")
			}
			if len(a) >= 5 {
				k.r.Check(strings.Contains(a[0], P(2).String()), id+"/chained-root", "BIND", fnShort(vm), vm.InstrPos(c),
					"root = root.GetHash()", "root argument is "+clip(a[0]))
				k.r.Check(a[4] == P(4).String(), id+"/chained-value", "BIND", fnShort(vm), vm.InstrPos(c),
					"value = value parameter", "value argument is "+clip(a[4]))
				k.r.Check(strings.Contains(a[3], P(3).String()), id+"/chained-keys", "BIND", fnShort(vm), vm.InstrPos(c),
					"keys derive from the path parameter", "keys argument is "+clip(a[3]))
			}
		}
	}
}
