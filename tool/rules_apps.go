package main

import (
	"fmt"
	"strings"

	"golang.org/x/tools/go/ssa"
)

type appDesc struct {
	name      string // "nft" / "mt"
	keeperPkg string
	modPkg    string
	typesPkg  string
	send      string
	msg       string
	burn      string
	mint      []string
	keeperFld string // token keeper interface type suffix
	hasAmount bool
}

var apps = []appDesc{
	{name: "nft", keeperPkg: pNFTKeeper, modPkg: pNFT, typesPkg: pNFTTypes, send: "SendNftTransfer", msg: "NftTransfer", burn: "BurnNFT", mint: []string{"MintNFT"}, keeperFld: "NftKeeper"},
	{name: "mt", keeperPkg: pMTKeeper, modPkg: pMT, typesPkg: pMTTypes, send: "SendMtTransfer", msg: "MtTransfer", burn: "BurnMT", mint: []string{"MintMT", "IssueMT"}, keeperFld: "MtKeeper", hasAmount: true},
}

func isTokenKeeperCall(c *ssa.CallCommon, app appDesc) bool {
	return c.IsInvoke() && strings.HasSuffix(typeString(c.Value.Type()), "types."+app.keeperFld)
}

// tokenCalls lists the calls on the token-module keeper (interface NftKeeper / MtKeeper)
// made directly by fi, by method name.
func tokenCalls(fi *FnInfo, app appDesc) map[string][]*ssa.Call {
	out := map[string][]*ssa.Call{}
	for _, b := range fi.Fn.Blocks {
		for _, in := range b.Instrs {
			c, ok := in.(*ssa.Call)
			if !ok || !isTokenKeeperCall(&c.Call, app) {
				continue
			}
			out[c.Call.Method.Name()] = append(out[c.Call.Method.Name()], c)
		}
	}
	return out
}

// tokenCallsDeep also finds the calls inside same-package helpers of fi (depth 2), with
// their arguments expressed in fi's vocabulary.
func (k *K) tokenCallsDeep(fi *FnInfo, app appDesc) map[string][]DeepCall {
	out := map[string][]DeepCall{}
	for _, dc := range k.deepCalls(fi, func(c *ssa.CallCommon) bool { return isTokenKeeperCall(c, app) }, 2) {
		if _, isCall := dc.Call.(*ssa.Call); !isCall {
			continue
		}
		n := dc.Call.Common().Method.Name()
		out[n] = append(out[n], dc)
	}
	return out
}

var tokenMutators = map[string]bool{"TransferOwner": true, "BurnNFT": true, "BurnMT": true, "MintNFT": true, "MintMT": true, "IssueMT": true, "IssueDenom": true}

// sendParams identifies the roles of the send function's parameters.
type sendParams struct{ class, id, sender, amount, dest *Term }

func sendParamsOf(fi *FnInfo, app appDesc) *sendParams {
	sp := &sendParams{}
	var strs []*Term
	for i, p := range fi.Fn.Params {
		ts := typeString(p.Type())
		switch {
		case strings.HasSuffix(ts, "types.AccAddress"):
			sp.sender = P(i)
		case ts == "string":
			strs = append(strs, P(i))
		case ts == "uint64":
			sp.amount = P(i)
		}
	}
	// (class, id, receiver, destChain, relayChain, destContract)
	if len(strs) < 4 || sp.sender == nil {
		return nil
	}
	sp.class, sp.id, sp.dest = strs[0], strs[1], strs[3]
	return sp
}

// appSendRule: the token operation performed on send is bound to the caller's own asset:
// class/id[/amount] are the function's parameters and the debited owner is the sender
// parameter; lock goes to the module account; exactly one of {lock, burn} precedes
// SendPacket on every path, chosen by the boolean that is put into the packet.
func (k *K) appSendRule(id string, app appDesc) {
	fi := k.method(app.keeperPkg, "Keeper", app.send)
	if fi == nil {
		return
	}
	fn := fnShort(fi)
	sp := sendParamsOf(fi, app)
	if k.r.BrokenIf(sp == nil, "%s: parameters not identified", fn) {
		return
	}
	tc := k.tokenCallsDeep(fi, app)
	locks, burns := tc["TransferOwner"], tc[app.burn]
	if len(locks) == 0 || len(burns) == 0 {
		k.r.Violate(id+"/"+app.send+".ops", "MUST-PASS", fn, k.w.Pos(fi.Fn.Pos()), fmt.Sprintf("send function has %d escrow transfers and %d burns; expected at least one of each", len(locks), len(burns)))
		return
	}
	for _, c := range locks {
		a := c.Args() // nft: ctx,class,id,name,uri,data,src,dst ; mt: ctx,class,id,amount,src,dst
		n := len(a)
		site := k.dcPos(fi, c)
		k.r.Check(a[1] == sp.class.String() && a[2] == sp.id.String(), id+"/"+app.send+".lock.asset", "BIND", fn, site, "escrow transfer moves the (class,id) parameters", "escrow transfer moves ("+a[1]+","+a[2]+"), expected the class and id parameters")
		k.r.Check(a[n-2] == sp.sender.String(), id+"/"+app.send+".lock.owner", "BIND", fn, site, "escrow transfer debits the sender parameter", "escrow transfer debits "+clip(a[n-2])+", expected the sender parameter (ownership of the asset is not enforced for the message signer)")
		k.r.Check(strings.Contains(a[n-1], "GetModuleAddress"), id+"/"+app.send+".lock.escrow", "BIND", fn, site, "escrow transfer credits the module account", "escrow transfer credits "+clip(a[n-1])+", expected the transfer module account")
		if app.hasAmount && sp.amount != nil {
			k.r.Check(a[3] == sp.amount.String(), id+"/"+app.send+".lock.amount", "BIND", fn, site, "escrow transfer moves exactly the amount parameter", "escrow transfer moves "+clip(a[3])+", expected the amount parameter")
		}
	}
	for _, c := range burns {
		a := c.Args() // nft: ctx,class,id,owner ; mt: ctx,class,id,amount,owner
		n := len(a)
		site := k.dcPos(fi, c)
		k.r.Check(a[1] == sp.class.String() && a[2] == sp.id.String(), id+"/"+app.send+".burn.asset", "BIND", fn, site, "burn destroys the (class,id) parameters", "burn destroys ("+a[1]+","+a[2]+"), expected the class and id parameters")
		k.r.Check(a[n-1] == sp.sender.String(), id+"/"+app.send+".burn.owner", "BIND", fn, site, "burn debits the sender parameter", "burn debits "+clip(a[n-1])+", expected the sender parameter (ownership of the voucher is not enforced for the message signer)")
		if app.hasAmount && sp.amount != nil {
			k.r.Check(a[3] == sp.amount.String(), id+"/"+app.send+".burn.amount", "BIND", fn, site, "burn destroys exactly the amount parameter", "burn destroys "+clip(a[3])+", expected the amount parameter")
		}
	}
	// exactly one of lock/burn before SendPacket, selected by the flag that goes into the packet
	sends := callsNamed(fi, "SendPacket")
	var away *Term
	for _, s := range sends {
		p := fi.T.Of(CallArgs(&s.Call)[1])
		p.Walk(func(x *Term) {
			if x.Op == "kv" && x.Name == "AwayFromOrigin" {
				away = x.Args[0]
			}
		})
		lockOrBurn := func(in ssa.Instruction) bool {
			for _, c := range append(append([]DeepCall{}, locks...), burns...) {
				if c.Outer == in {
					return true
				}
			}
			return false
		}
		path := fi.PathAvoiding(s, lockOrBurn)
		k.r.Check(path == nil, id+"/"+app.send+".pair", "MUST-PASS", fn, fi.InstrPos(s), "every path to SendPacket locks or burns the asset first", "SendPacket reachable without locking or burning the asset: "+fi.DescribePath(path))
	}
	if away == nil {
		k.r.Undecided(id+"/"+app.send+".flag", "BIND", fn, k.w.Pos(fi.Fn.Pos()), "cannot find the AwayFromOrigin field of the packet data passed to SendPacket")
		return
	}
	// the direction is decided for the packet's own destination and the class put into the packet
	if away.Op == "call" && strings.HasSuffix(away.Name, ".determineAwayFromOrigin") && len(away.Args) == 3 {
		var pktDest, pktClass string
		for _, s := range sends {
			p := fi.T.Of(CallArgs(&s.Call)[1])
			p.Walk(func(x *Term) {
				if x.Op == "kv" && x.Name == "DestinationChain" && pktDest == "" {
					pktDest = x.Args[0].String()
				}
				if x.Op == "kv" && x.Name == "Class" && pktClass == "" {
					pktClass = x.Args[0].String()
				}
			})
		}
		k.r.Check(away.Args[2].String() == pktDest, id+"/"+app.send+".direction.dest", "BIND", fn, k.w.Pos(fi.Fn.Pos()), "away/back is decided against the packet's destination chain", "the away-from-origin decision is taken against "+clip(away.Args[2].String())+" but the packet is addressed to "+clip(pktDest)+" (e.g. the relay chain instead of the destination): sender and receiver can disagree on the direction")
		k.r.Check(away.Args[1].String() == pktClass, id+"/"+app.send+".direction.class", "BIND", fn, k.w.Pos(fi.Fn.Pos()), "away/back is decided on the class path written into the packet", "the away-from-origin decision is taken on "+clip(away.Args[1].String())+" but the packet carries class "+clip(pktClass))
	} else {
		k.r.Undecided(id+"/"+app.send+".direction", "BIND", fn, k.w.Pos(fi.Fn.Pos()), "the AwayFromOrigin flag is not the result of determineAwayFromOrigin(class, dest): "+clip(away.String()))
	}
	for _, c := range locks {
		k.r.Check(k.dcHasAtom(fi, c, away.String()), id+"/"+app.send+".flag.lock", "GUARD-DOM", fn, k.dcPos(fi, c),
			"escrow lock happens exactly when the packet says AwayFromOrigin=true", "escrow lock is not guarded by the same boolean that is written into the packet's AwayFromOrigin ("+clip(away.String())+")")
	}
	for _, c := range burns {
		k.r.Check(k.dcHasAtom(fi, c, "!"+away.String()), id+"/"+app.send+".flag.burn", "GUARD-DOM", fn, k.dcPos(fi, c),
			"voucher burn happens exactly when the packet says AwayFromOrigin=false", "voucher burn is not guarded by the negation of the boolean written into the packet's AwayFromOrigin ("+clip(away.String())+")")
	}
}
