package main

import (
	"go/token"
	"go/types"
	"strings"

	"golang.org/x/tools/go/ssa"
)

// keeperMemRule: code reachable from a message handler does not write memory that hangs
// off a long-lived object (a Keeper, the msgServer, an AppModule): a field behind a pointer
// receiver, or a pointer / map / slice held in a field (reachable even from a value
// receiver). Such memory is outside the branched store: what a message wrote there
// survives when the message (or the whole transaction / proposal / simulation) fails and is
// rolled back, and it is not part of the application hash.
func (k *K) keeperMemRule(id string, fns []*ssa.Function) {
	longLived := func(t types.Type) bool {
		if p, ok := t.(*types.Pointer); ok {
			t = p.Elem()
		}
		n, ok := t.(*types.Named)
		if !ok || n.Obj().Pkg() == nil || !strings.HasPrefix(n.Obj().Pkg().Path(), modPath) {
			return false
		}
		switch n.Obj().Name() {
		case "Keeper", "msgServer", "AppModule", "AppModuleBasic", "Router":
			return true
		}
		return false
	}
	n, methods := 0, 0
	for _, fn := range fns {
		if fn.Signature.Recv() == nil || len(fn.Params) == 0 || !longLived(fn.Params[0].Type()) {
			continue
		}
		methods++
		recv := fn.Params[0]
		_, recvIsPtr := recv.Type().(*types.Pointer)
		// the local copy of a value receiver
		var copyOf *ssa.Alloc
		if len(fn.Blocks) > 0 {
			for _, in := range fn.Blocks[0].Instrs {
				if st, ok := in.(*ssa.Store); ok && st.Val == ssa.Value(recv) {
					if al, ok := st.Addr.(*ssa.Alloc); ok {
						copyOf = al
					}
				}
			}
		}
		var derive func(v ssa.Value, depth int) (from, crossed bool)
		derive = func(v ssa.Value, depth int) (bool, bool) {
			if depth > 10 || v == nil {
				return false, false
			}
			switch x := v.(type) {
			case *ssa.Parameter:
				if x == recv {
					return true, recvIsPtr
				}
			case *ssa.Alloc:
				if copyOf != nil && x == copyOf {
					return true, false
				}
			case *ssa.FieldAddr:
				return derive(x.X, depth+1)
			case *ssa.IndexAddr:
				return derive(x.X, depth+1)
			case *ssa.Field:
				return derive(x.X, depth+1)
			case *ssa.UnOp:
				if x.Op != token.MUL {
					return false, false
				}
				from, crossed := derive(x.X, depth+1)
				if !from {
					return false, false
				}
				switch x.Type().Underlying().(type) {
				case *types.Pointer, *types.Map, *types.Slice, *types.Chan:
					return true, true
				}
				return true, crossed
			}
			return false, false
		}
		name := funcName(fn)
		for _, b := range fn.Blocks {
			for _, in := range b.Instrs {
				var target ssa.Value
				what := ""
				switch x := in.(type) {
				case *ssa.Store:
					if x.Val == ssa.Value(recv) {
						continue // the receiver copy itself
					}
					target, what = x.Addr, "assigns memory"
				case *ssa.MapUpdate:
					target, what = x.Map, "inserts into a map"
				default:
					continue
				}
				if from, crossed := derive(target, 0); from && crossed {
					n++
					k.r.Violate(id+"/"+name, "NO-GLOBAL-WRITE", name, k.w.Pos(in.Pos()), "message handling "+what+" that belongs to the long-lived "+shortType(recv.Type())+" object (not the KV store): the write survives a failed or simulated message and is not part of the committed state, so later executions in this process differ from a fresh one")
				}
			}
		}
	}
	if n == 0 {
		k.r.Check(methods >= 20, id+"/none", "NO-GLOBAL-WRITE", "keepers / msgServer / AppModule methods reachable from message handlers", "-", "no reachable method writes memory of a long-lived object", "too few keeper methods scanned")
	}
}
