package main

import "golang.org/x/tools/go/ssa"

// emitsDeep reports whether fn, or a same-package function it calls statically
// (depth-limited), emits an event.
func (k *K) emitsDeep(fn *ssa.Function, depth int) bool {
	for _, b := range fn.Blocks {
		for _, in := range b.Instrs {
			ci, ok := in.(ssa.CallInstruction)
			if !ok {
				continue
			}
			c := ci.Common()
			if isEmit(c) {
				return true
			}
			if depth > 0 {
				if callee := c.StaticCallee(); callee != nil && callee.Blocks != nil && callee.Pkg == fn.Pkg && callee != fn {
					if k.emitsDeep(callee, depth-1) {
						return true
					}
				}
			}
		}
	}
	return false
}
