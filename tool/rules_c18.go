package main

import (
	"fmt"
	"go/types"
	"strings"

	"golang.org/x/tools/go/ssa"
)

func init() {
	register("C18", propMeta{
		Explanation: "Decides, on every path of the ETH client update (CheckHeaderAndUpdateState -> checkValidity -> verifyHeader -> verifyCascadingFields -> Ethash.VerifySeal): a header already indexed under (its hash, its height) is refused; the parent is looked up under (header.ParentHash, height-1) and must exist, decode, and hash to header.ParentHash; header.Time <= (ctx.BlockTime()+allowedFutureBlockTime) in Unix seconds, with the constant read from the source, and parent.Time < header.Time; VerifyEip1559Header(parent, header) succeeded (inside: gas-limit window and minimum, base fee present and equal to CalcBaseFee(parent)); the difficulty equals the calculator's result for (header.Time, parent); the seal check succeeded on the header itself (inside: difficulty positive, mix digest equals the computed digest, result <= 2^256/difficulty); checkValidity's success dominates every index write, pruning delete, chain rewrite and the success return; after acceptance the returned client state's latest header is the accepted header on every success path and the consensus state is {header time, height, root}, indexed under the header's own hash/height/root. ClientKeeper.UpdateClient (shared by all client types) stores the returned client and consensus state on every accepting path. NOT decided either: the arithmetic inside CalcBaseFee and the difficulty calculators (values of in-place big.Int operations; a seeded change that loses the max(delta,1) clamp is not seen). NOT decided: the single-chain invariant after a reorganisation of any depth (RestrictChain is loop arithmetic over heights; reading suggests its rewrite loop looks headers up one height too low, but showing that needs value reasoning outside this family), the 'if' direction.",
		Assumptions: []string{"the vendored ethash hashimoto implementation is correct"},
		Trusted:     commonTrusted,
	}, ruleC18)
}

func ruleC18(w *World, r *Report) {
	k := newK(w, r)
	if fi := k.function(pETH, "verifyHeader"); fi != nil {
		const hdr, store = "$4", "$2"
		parentGet := func(t *Term) bool {
			if t.Op != "invoke" || t.Name != "Get" || t.Args[0].String() != store {
				return false
			}
			s := t.Args[1].String()
			return strings.Contains(s, "KeyIndexEthHeaderPrefix") && strings.Contains(s, "ToEthHeader("+hdr+").ParentHash") && strings.Contains(s, "("+hdr+".Height.RevisionHeight - const(1))")
		}
		selfGet := func(t *Term) bool {
			if t.Op != "invoke" || t.Name != "Get" || t.Args[0].String() != store {
				return false
			}
			s := t.Args[1].String()
			return strings.Contains(s, "KeyIndexEthHeaderPrefix") && strings.Contains(s, "rlpHash(") && strings.Contains(s, "ToEthHeader(*"+hdr+")") && strings.Contains(s, hdr+".Height.RevisionHeight") && !strings.Contains(s, "- const(1)")
		}
		k.need(fi, "C18.duplicate", "a header already indexed under (hash, height) is refused", "a header the client already has can be accepted again", func(f Fact) bool {
			return f.Op == "==" && ((selfGet(f.L) && f.R.Op == "nil") || (selfGet(f.R) && f.L.Op == "nil"))
		})
		k.need(fi, "C18.parent/exists", "the parent must be indexed under (header.ParentHash, height-1)", "a header whose parent is not a stored header can be accepted", func(f Fact) bool {
			return f.Op == "!=" && ((parentGet(f.L) && f.R.Op == "nil") || (parentGet(f.R) && f.L.Op == "nil"))
		})
		isParent := func(s string) bool {
			return strings.Contains(s, "assert:*types.Header(out[$1.UnmarshalInterface("+store+".Get(") && strings.Contains(s, "ParentHash")
		}
		k.need(fi, "C18.parent/hash", "hash(stored parent) == header.ParentHash", "the stored parent's hash is not compared with header.ParentHash", func(f Fact) bool {
			if f.Op != "true" || f.L.Op != "call" || f.L.Name != "bytes.Equal" {
				return false
			}
			a, b := f.L.Args[0].String(), f.L.Args[1].String()
			ph := "ToEthHeader(" + hdr + ").ParentHash)"
			return (strings.Contains(a, "rlpHash(") && isParent(a) && strings.HasSuffix(b, ph)) || (strings.Contains(b, "rlpHash(") && isParent(b) && strings.HasSuffix(a, ph))
		})
		// the future bound constant
		constOK := false
		if p := w.ByPath[pETH]; p != nil {
			if c, ok := p.Types.Scope().Lookup("allowedFutureBlockTime").(*types.Const); ok {
				constOK = c.Val().ExactString() == "15000000000"
			}
		}
		if !constOK {
			// declared as a package variable: its initialiser must be the constant 15s and
			// nothing else may assign it (globalInit returns nil otherwise)
			if it := w.globalInit(shortPath(pETH) + ".allowedFutureBlockTime"); it != nil {
				constOK = it.String() == "const(15000000000)"
			}
		}
		r.Check(constOK, "C18.future/const", "CONST-EVAL", shortPath(pETH)+".allowedFutureBlockTime", "-", "allowedFutureBlockTime = 15s", "allowedFutureBlockTime is not 15 seconds")
		k.need(fi, "C18.future/bound", "header.Time <= unix(ctx.BlockTime() + 15s)", "a header more than 15 seconds ahead of chain time can be accepted (missing check, wrong clock or wrong unit)", func(f Fact) bool {
			if f.Op != "<=" || f.L.String() != hdr+".Time" {
				return false
			}
			s := f.R.String()
			return strings.HasPrefix(s, "conv:uint64((time.Time).Unix((time.Time).Add((github.com/cosmos/cosmos-sdk/types.Context).BlockTime($0),") && (strings.Contains(s, "allowedFutureBlockTime") || strings.Contains(s, "const(15000000000)"))
		})
		k.need(fi, "C18.time/after-parent", "parent.Time < header.Time", "a header not later than its parent can be accepted", func(f Fact) bool {
			return f.Op == "<" && f.R.String() == hdr+".Time" && isParent(f.L.String()) && strings.HasSuffix(f.L.String(), ".Time")
		})
		// 1559
		var eips []*ssa.Call
		for _, b := range fi.Fn.Blocks {
			for _, in := range b.Instrs {
				if c, ok := in.(*ssa.Call); ok {
					if f := c.Call.StaticCallee(); f != nil && f.Name() == "VerifyEip1559Header" {
						a := termsOf(fi, c.Call.Args)
						if len(a) == 2 && isParent(a[0]) && a[1] == hdr {
							eips = append(eips, c)
						}
					}
				}
			}
		}
		okE, retE := k.successPassesCall(fi, eips)
		r.Check(len(eips) > 0 && okE, "C18.eip1559/call", "MUST-PASS", fnShort(fi), w.Pos(fi.Fn.Pos()), "success passes VerifyEip1559Header(stored parent, header)", "verifyHeader can succeed without VerifyEip1559Header(parent, header) — at "+retPos(fi, retE))
		k.need(fi, "C18.difficulty", "difficulty == calculator(header.Time, parent)", "a header whose difficulty differs from the prescribed value can be accepted", func(f Fact) bool {
			return isZeroCmp(f, "==", func(t *Term) bool {
				if t.Op != "call" || !strings.HasSuffix(t.Name, "big.Int).Cmp") {
					return false
				}
				a, b := t.Args[0].String(), t.Args[1].String()
				return strings.Contains(a, "makeDifficultyCalculator") && strings.Contains(a, hdr+".Time") && isParent(a) && strings.Contains(b, "ToEthHeader("+hdr+").Difficulty")
			})
		})
		k.tailPasses(fi, "C18.chain/verifyHeader", "verifyCascadingFields", []string{hdr})
	}
	if fi := k.function(pETH, "checkValidity"); fi != nil {
		k.tailPasses(fi, "C18.chain/checkValidity", "verifyHeader", []string{"$0", "$1", "$2", "$3", "$5"})
	}
	if fi := k.function(pETH, "verifyCascadingFields"); fi != nil {
		var seals []*ssa.Call
		for _, c := range callsNamed(fi, "VerifySeal") {
			a := termsOf(fi, CallArgs(&c.Call))
			if len(a) == 2 && strings.Contains(a[0], "ToVerifyHeader($0)") {
				seals = append(seals, c)
			}
		}
		ok, ret := k.successPassesCall(fi, seals)
		r.Check(len(seals) > 0 && ok, "C18.seal/call", "MUST-PASS", fnShort(fi), w.Pos(fi.Fn.Pos()), "success passes Ethash.VerifySeal(header)", "verifyCascadingFields can succeed without a successful seal verification of the header — at "+retPos(fi, ret))
	}
	if fi := k.method(pETH, "Ethash", "VerifySeal"); fi != nil {
		k.need(fi, "C18.seal/mixdigest", "header.MixDigest == computed digest", "the mix digest is not compared with the computed digest", func(f Fact) bool {
			return f.Op == "true" && f.L.Op == "call" && f.L.Name == "bytes.Equal" && strings.Contains(f.L.String(), "$1.MixDigest") && (strings.Contains(f.L.String(), "hashimoto") || strings.Contains(f.L.String(), "phi{") || strings.Contains(f.L.String(), "cell:"))
		})
		k.need(fi, "C18.seal/target", "result <= 2^256 / difficulty", "the proof-of-work result is not compared with the difficulty target", func(f Fact) bool {
			// !(SetBytes(result).Cmp(Div(two256, difficulty)) > 0)
			return f.Op == "<=" && f.R.String() == "const(0)" && strings.Contains(f.L.String(), "big.Int).Cmp(") && strings.Contains(f.L.String(), "two256") && strings.Contains(f.L.String(), "$1.Difficulty")
		})
		k.need(fi, "C18.seal/positive-difficulty", "difficulty > 0", "a non-positive difficulty is not refused", func(f Fact) bool {
			return f.Op == "<" && f.L.String() == "const(0)" && strings.Contains(f.R.String(), "big.Int).Sign($1.Difficulty)")
		})
	}
	if fi := k.function(pETH, "VerifyEip1559Header"); fi != nil {
		var gl []*ssa.Call
		for _, b := range fi.Fn.Blocks {
			for _, in := range b.Instrs {
				if c, ok := in.(*ssa.Call); ok {
					if f := c.Call.StaticCallee(); f != nil && f.Name() == "VerifyGaslimit" {
						a := termsOf(fi, c.Call.Args)
						if strings.Contains(a[0], "$0") && strings.Contains(a[0], "GasLimit") && strings.Contains(a[1], "$1") && strings.Contains(a[1], "GasLimit") {
							gl = append(gl, c)
						}
					}
				}
			}
		}
		ok, ret := k.successPassesCall(fi, gl)
		r.Check(len(gl) > 0 && ok, "C18.eip1559/gaslimit", "MUST-PASS", fnShort(fi), w.Pos(fi.Fn.Pos()), "success passes VerifyGaslimit(parent.GasLimit, header.GasLimit)", "the gas-limit window is not enforced — at "+retPos(fi, ret))
		k.need(fi, "C18.eip1559/basefee", "baseFee == CalcBaseFee(parent)", "a header whose base fee differs from CalcBaseFee(parent) can be accepted", func(f Fact) bool {
			return isZeroCmp(f, "==", func(t *Term) bool {
				return t.Op == "call" && strings.HasSuffix(t.Name, "big.Int).Cmp") && strings.Contains(t.Args[0].String(), "$1") && strings.Contains(t.Args[0].String(), "BaseFee") && strings.Contains(t.Args[1].String(), "CalcBaseFee($0)")
			})
		})
	}
	if fi := k.function(pETH, "VerifyGaslimit"); fi != nil {
		k.need(fi, "C18.eip1559/gaslimit.window", "|parent - header| < parent/1024", "the gas-limit change window is not enforced", func(f Fact) bool {
			return f.Op == "<" && strings.HasPrefix(f.L.String(), "conv:uint64(") && f.R.String() == "($0 / const(1024))"
		})
		k.need(fi, "C18.eip1559/gaslimit.min", "gasLimit >= 5000", "the minimum gas limit is not enforced", func(f Fact) bool {
			return f.Op == "<=" && f.L.String() == "const(5000)" && f.R.String() == "$1"
		})
	}
	// ---- CheckHeaderAndUpdateState
	if fi := k.method(pETH, "ClientState", "CheckHeaderAndUpdateState"); fi != nil {
		fn := fnShort(fi)
		var cvs []*ssa.Call
		for _, b := range fi.Fn.Blocks {
			for _, in := range b.Instrs {
				if c, ok := in.(*ssa.Call); ok {
					if f := c.Call.StaticCallee(); f != nil && f.Name() == "checkValidity" {
						cvs = append(cvs, c)
						a := termsOf(fi, c.Call.Args)
						r.Check(len(a) == 6 && a[0] == "$1" && a[2] == "$3" && strings.Contains(a[3], "$0") && strings.Contains(a[5], "assert:*types.Header($4)"), "C18.dom.validity/bind", "BIND", fn, fi.InstrPos(c), "checkValidity(ctx, store, &clientState, submitted header)", "checkValidity receives "+clip(strings.Join(a, ", ")))
					}
				}
			}
		}
		sites := append(k.EffectSites(fi), returnSites(fi, "")...)
		for _, name := range []string{"update", "RestrictChain", "deleteConsensusStateAndIndexHeader"} {
			for _, c := range fi.Calls(func(c *ssa.CallCommon) bool { f := c.StaticCallee(); return f != nil && f.Name() == name }) {
				sites = append(sites, Site{c, name})
			}
		}
		k.requireErrNilDominates("C18.dom.validity", fi, cvs, sites, "checkValidity")
		// latest header := accepted header on every success path (of the returned client state)
		var sts []ssa.Instruction
		for _, b := range fi.Fn.Blocks {
			for _, in := range b.Instrs {
				st, ok := in.(*ssa.Store)
				if !ok {
					continue
				}
				at := fi.T.Of(st.Addr).String()
				if strings.HasSuffix(at, ".Header") && strings.Contains(at, "update(") {
					r.Check(strings.Contains(fi.T.Of(st.Val).String(), "assert:*types.Header($4)"), "C18.latest/value", "BIND", fn, fi.InstrPos(in), "returned client state's latest header := accepted header", "the returned client state's latest header is set to "+clip(fi.T.Of(st.Val).String()))
					sts = append(sts, in)
				}
			}
		}
		for _, rt := range returnSites(fi, "") {
			path := fi.PathAvoiding(rt.Instr, func(x ssa.Instruction) bool {
				for _, s := range sts {
					if s == x {
						return true
					}
				}
				return false
			})
			r.Check(len(sts) > 0 && path == nil, "C18.latest/"+rt.What, "MUST-PASS", fn, fi.InstrPos(rt.Instr), "every success path makes the accepted header the latest header", "the update can succeed without making the accepted header the latest header of the returned client state (e.g. only when its height is greater): consensus states of two branches become visible at once: "+fi.DescribePath(path))
		}
	}
	if fi := k.function(pETH, "update"); fi != nil {
		fn := fnShort(fi)
		hdr := P(4).String()
		for _, rt := range fi.Returns() {
			if rt.Kind == RetFail {
				continue
			}
			t := fi.T.Of(RetVal(rt.Instr, 1))
			r.Check(kvOf(t, "Timestamp") == hdr+".Time" && kvOf(t, "Number") == hdr+".Height" && kvOf(t, "Root") == hdr+".Root", "C18.update/consensus", "BIND", fn, fi.InstrPos(rt.Instr), "consensus state = {header.Time, header.Height, header.Root}", "consensus state is "+clip(t.String()))
		}
		n := 0
		for _, c := range fi.Calls(func(c *ssa.CallCommon) bool {
			f := c.StaticCallee()
			return f != nil && f.Name() == "SetEthHeaderIndex"
		}) {
			n++
			a := termsOf(fi, c.Common().Args)
			r.Check(a[0] == "$2" && strings.Contains(a[1], hdr) && strings.Contains(a[2], "MarshalInterface("+hdr+")"), "C18.update/index", "BIND", fn, fi.InstrPos(c), "header indexed under its own hash/height with its own encoding", "SetEthHeaderIndex receives "+clip(strings.Join(a, ", ")))
		}
		for _, c := range fi.Calls(func(c *ssa.CallCommon) bool {
			f := c.StaticCallee()
			return f != nil && f.Name() == "SetEthConsensusRoot"
		}) {
			n++
			a := termsOf(fi, c.Common().Args)
			r.Check(a[0] == "$2" && strings.Contains(a[1], hdr) && strings.Contains(a[2], hdr) && strings.Contains(a[2], "Root") && strings.Contains(a[3], "rlpHash(") && strings.Contains(a[3], hdr), "C18.update/rootindex", "BIND", fn, fi.InstrPos(c), "root index written for the header's own height, root and hash", "SetEthConsensusRoot receives "+clip(strings.Join(a, ", ")))
		}
		r.Check(n == 2, "C18.update/writes", "MUST-PASS", fn, w.Pos(fi.Fn.Pos()), "update writes header index and root index", fmt.Sprintf("update performs %d of the 2 expected index writes", n))
	}
	r.Info("C18.single-chain", "MUST-PASS", shortPath(pETH)+".RestrictChain", "-", "not decided: the single parent-linked chain after a reorganisation depends on loop arithmetic over heights in RestrictChain (value reasoning, outside this family)")
	// the keeper (shared by all client types) stores what the accepted header defines
	k.keeperUpdateRule("C18")
	r.MinInstances("C18.", 30)
}
