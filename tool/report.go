package main

import (
	"bufio"
	"encoding/json"
	"fmt"
	"os"
	"path/filepath"
	"sort"
	"strings"
	"time"
)

// Obligation is one rule instance: a rule applied to one construct of the repository.
type Obligation struct {
	ID     string `json:"id"`     // rule-id/construct (never a line number)
	Rule   string `json:"rule"`   // kind: GUARD-DOM, MUST-PASS, BIND, ...
	Func   string `json:"func"`   // function analysed
	Site   string `json:"site"`   // file:line of the construct
	Status string `json:"status"` // discharged | violated | undecided | known-finding | info
	Detail string `json:"detail"`
}

type Report struct {
	Property string
	Tier     string
	Obs      []Obligation
	Notes    []string
	Broken   []string // checker-broken conditions (vacuous rule, anchor missing)
	start    time.Time
	Stats    map[string]int
	Extra    map[string]interface{} // additional evidence (self-test results)
}

func NewReport(prop, tier string) *Report {
	return &Report{Property: prop, Tier: tier, start: time.Now(), Stats: map[string]int{}}
}

func (r *Report) add(o Obligation) { r.Obs = append(r.Obs, o) }

func (r *Report) OK(id, rule, fn, site, detail string) {
	r.add(Obligation{ID: id, Rule: rule, Func: fn, Site: site, Status: "discharged", Detail: detail})
}
func (r *Report) Violate(id, rule, fn, site, detail string) {
	r.add(Obligation{ID: id, Rule: rule, Func: fn, Site: site, Status: "violated", Detail: detail})
}
func (r *Report) Undecided(id, rule, fn, site, detail string) {
	r.add(Obligation{ID: id, Rule: rule, Func: fn, Site: site, Status: "undecided", Detail: detail})
}
func (r *Report) Info(id, rule, fn, site, detail string) {
	r.add(Obligation{ID: id, Rule: rule, Func: fn, Site: site, Status: "info", Detail: detail})
}

// Check records discharged/violated depending on ok.
func (r *Report) Check(ok bool, id, rule, fn, site, okDetail, badDetail string) bool {
	if ok {
		r.OK(id, rule, fn, site, okDetail)
	} else {
		r.Violate(id, rule, fn, site, badDetail)
	}
	return ok
}

// BrokenIf registers a checker-broken condition (anchor missing, vacuous rule).
func (r *Report) BrokenIf(cond bool, format string, args ...interface{}) bool {
	if cond {
		r.Broken = append(r.Broken, fmt.Sprintf(format, args...))
	}
	return cond
}

// MinInstances: fail as broken when a rule matched fewer sites than confirmed by reading.
func (r *Report) MinInstances(rulePrefix string, min int) {
	n := 0
	for _, o := range r.Obs {
		if strings.HasPrefix(o.ID, rulePrefix) && o.Status != "info" {
			n++
		}
	}
	if n < min {
		r.Broken = append(r.Broken, fmt.Sprintf("CHECK-BROKEN rule=%s expected>=%d instances, got %d (anchor renamed or selector matches nothing)", rulePrefix, min, n))
	}
}

// ---- known findings -----------------------------------------------------------------

type Known struct {
	Property string
	ObID     string
	What     string
}

// known_findings.txt format, one per line:
//
//	finding: property=C13 obligation=<obligation id> <what fails>
//	fixed:   property=C14 <commit> <what failed>
func loadKnown(path string) ([]Known, error) {
	f, err := os.Open(path)
	if err != nil {
		if os.IsNotExist(err) {
			return nil, nil
		}
		return nil, err
	}
	defer f.Close()
	var out []Known
	sc := bufio.NewScanner(f)
	sc.Buffer(make([]byte, 1<<20), 1<<20)
	for sc.Scan() {
		line := strings.TrimSpace(sc.Text())
		if !strings.HasPrefix(line, "finding:") {
			continue // comments and "fixed:" entries suppress nothing
		}
		rest := strings.TrimSpace(strings.TrimPrefix(line, "finding:"))
		fields := strings.Fields(rest)
		k := Known{}
		var what []string
		for _, f := range fields {
			switch {
			case strings.HasPrefix(f, "property=") && k.Property == "":
				k.Property = strings.TrimPrefix(f, "property=")
			case strings.HasPrefix(f, "obligation=") && k.ObID == "":
				k.ObID = strings.TrimPrefix(f, "obligation=")
			default:
				what = append(what, f)
			}
		}
		k.What = strings.Join(what, " ")
		if k.Property != "" && k.ObID != "" {
			out = append(out, k)
		}
	}
	return out, sc.Err()
}

// ---- output -------------------------------------------------------------------------

type evidence struct {
	PropertyID  string                 `json:"property_id"`
	Tier        string                 `json:"tier"`
	Seed        int                    `json:"seed"`
	Level       string                 `json:"level"`
	Coverage    map[string]interface{} `json:"coverage"`
	Assumptions []string               `json:"assumptions"`
	WallS       float64                `json:"wall_s"`
	Violations  int                    `json:"violations"`
}

type propMeta struct {
	Explanation string
	Assumptions []string
	Trusted     []string
}

// Finish prints the verdict, writes evidence and the replay file, returns the exit code.
func (r *Report) Finish(verifDir string, meta propMeta, cmdline string, seed int) int {
	known, err := loadKnown(filepath.Join(verifDir, "known_findings.txt"))
	if err != nil {
		r.Broken = append(r.Broken, "cannot read known_findings.txt: "+err.Error())
	}
	sort.SliceStable(r.Obs, func(i, j int) bool { return r.Obs[i].ID < r.Obs[j].ID })
	// duplicate obligation ids get a numeric suffix so each is addressable
	seenID := map[string]int{}
	for i := range r.Obs {
		seenID[r.Obs[i].ID]++
		if n := seenID[r.Obs[i].ID]; n > 1 {
			r.Obs[i].ID = fmt.Sprintf("%s~%d", r.Obs[i].ID, n)
		}
	}
	var viol, undec []Obligation
	knownMatched := 0
	discharged, total := 0, 0
	for i := range r.Obs {
		o := &r.Obs[i]
		if o.Status == "info" {
			continue
		}
		total++
		if o.Status == "violated" || o.Status == "undecided" {
			matched := false
			for _, k := range known {
				if k.Property == r.Property && k.ObID == o.ID {
					matched = true
					fmt.Printf("KNOWN-FINDING: property=%s obligation=%s %s [%s %s]\n", r.Property, o.ID, k.What, o.Func, o.Site)
				}
			}
			if matched {
				o.Status = "known-finding"
				knownMatched++
				continue
			}
			if o.Status == "undecided" {
				undec = append(undec, *o)
			}
			viol = append(viol, *o)
		} else if o.Status == "discharged" {
			discharged++
		}
	}
	for _, o := range r.Obs {
		switch o.Status {
		case "violated":
			fmt.Printf("  VIOLATED   %-44s %s  %s\n             %s\n", o.ID, o.Func, o.Site, o.Detail)
		case "undecided":
			fmt.Printf("  UNDECIDED  %-44s %s  %s\n             %s\n", o.ID, o.Func, o.Site, o.Detail)
		case "info":
			fmt.Printf("  INFO       %-44s %s  %s\n             %s\n", o.ID, o.Func, o.Site, o.Detail)
		}
	}
	for _, n := range r.Notes {
		fmt.Println("  NOTE " + n)
	}
	wall := time.Since(r.start).Seconds()

	// evidence
	samples := []interface{}{}
	distinct := map[string]bool{}
	for _, o := range r.Obs {
		if o.Status == "info" {
			continue
		}
		distinct[o.ID] = true
		if len(samples) < 60 {
			samples = append(samples, o)
		}
	}
	cov := map[string]interface{}{
		"explanation":            meta.Explanation,
		"obligations":            total,
		"discharged":             discharged,
		"known_findings_matched": knownMatched,
		"undecided":              len(undec),
		"evaluations":            total,
		"distinct_nontrivial":    len(distinct),
		"rule":                   "one obligation per (rule, construct) of the current /repo tree; distinct = distinct obligation ids; non-trivial = the rule matched at least one concrete site (vacuous rules abort the check)",
		"samples":                samples,
		"checker_cmd":            cmdline,
		"trusted_base":           meta.Trusted,
		"exhaustive":             false,
	}
	for k, v := range r.Stats {
		cov[k] = v
	}
	for k, v := range r.Extra {
		cov[k] = v
	}
	ev := evidence{PropertyID: r.Property, Tier: r.Tier, Seed: seed, Level: "other", Coverage: cov,
		Assumptions: meta.Assumptions, WallS: wall, Violations: len(viol)}
	evDir := filepath.Join(verifDir, "evidence")
	_ = os.MkdirAll(evDir, 0o755)
	evPath := filepath.Join(evDir, r.Property+".json")
	if bz, err := json.MarshalIndent(ev, "", " "); err == nil {
		if err := os.WriteFile(evPath, bz, 0o644); err != nil {
			r.Broken = append(r.Broken, "cannot write evidence: "+err.Error())
		}
	}
	replay := filepath.Join(evDir, r.Property+".violations.json")
	_ = os.Remove(replay)

	fmt.Printf("property=%s tier=%s obligations=%d discharged=%d known=%d violated=%d undecided=%d wall=%.1fs\n",
		r.Property, r.Tier, total, discharged, knownMatched, len(viol), len(undec), wall)

	// undecided obligations fail closed: the rule could not establish the necessary
	// condition on the current tree, which is reported as a violation of that obligation.
	if len(r.Broken) > 0 {
		for _, b := range r.Broken {
			fmt.Println("CHECK-BROKEN " + b)
		}
		if len(viol) == 0 {
			return 2
		}
	}
	if len(viol) > 0 {
		bz, _ := json.MarshalIndent(map[string]interface{}{"property": r.Property, "violations": viol}, "", " ")
		_ = os.WriteFile(replay, bz, 0o644)
		fmt.Printf("VIOLATION property=%s replay=%s\n", r.Property, replay)
		return 1
	}
	return 0
}
