package main

import (
	"go/types"
	"sort"
	"strings"

	"golang.org/x/tools/go/ssa"
)

// CG is a class-hierarchy call graph restricted to repository functions with bodies.
// Interface invokes are resolved to every repository type implementing the interface
// (over-approximation: may add callers, never drops one).
type CG struct {
	w       *World
	Callees map[*ssa.Function]map[*ssa.Function][]ssa.Instruction
	Callers map[*ssa.Function]map[*ssa.Function][]ssa.Instruction
	types   []types.Type
	writes  map[*ssa.Function]map[string]bool
	ops     map[*ssa.Function][]StoreOp
	infos   map[*ssa.Function]*FnInfo
}

func (w *World) FI(fn *ssa.Function) *FnInfo {
	if w.fiCache == nil {
		w.fiCache = map[*ssa.Function]*FnInfo{}
	}
	if fi, ok := w.fiCache[fn]; ok {
		return fi
	}
	fi := w.Info(fn)
	w.fiCache[fn] = fi
	return fi
}

func (w *World) CallGraph() *CG {
	if w.cg != nil {
		return w.cg
	}
	cg := &CG{w: w, Callees: map[*ssa.Function]map[*ssa.Function][]ssa.Instruction{}, Callers: map[*ssa.Function]map[*ssa.Function][]ssa.Instruction{},
		writes: map[*ssa.Function]map[string]bool{}, ops: map[*ssa.Function][]StoreOp{}}
	for _, sp := range w.SSA {
		for _, m := range sp.Members {
			if t, ok := m.(*ssa.Type); ok {
				if _, isIface := t.Type().Underlying().(*types.Interface); isIface {
					continue
				}
				cg.types = append(cg.types, t.Type(), types.NewPointer(t.Type()))
			}
		}
	}
	add := func(from, to *ssa.Function, at ssa.Instruction) {
		if to == nil || to.Blocks == nil {
			return
		}
		if cg.Callees[from] == nil {
			cg.Callees[from] = map[*ssa.Function][]ssa.Instruction{}
		}
		if cg.Callers[to] == nil {
			cg.Callers[to] = map[*ssa.Function][]ssa.Instruction{}
		}
		cg.Callees[from][to] = append(cg.Callees[from][to], at)
		cg.Callers[to][from] = append(cg.Callers[to][from], at)
	}
	for _, fn := range w.Funcs {
		for _, b := range fn.Blocks {
			for _, in := range b.Instrs {
				switch x := in.(type) {
				case ssa.CallInstruction:
					c := x.Common()
					if c.IsInvoke() {
						for _, impl := range cg.resolveInvoke(c) {
							add(fn, impl, in)
						}
					} else if callee := c.StaticCallee(); callee != nil {
						add(fn, callee, in)
					}
					// function values passed as arguments may be called by the callee
					for _, a := range c.Args {
						if f := funcValue(a); f != nil {
							add(fn, f, in)
						}
					}
				case *ssa.MakeClosure:
					if f, ok := x.Fn.(*ssa.Function); ok {
						add(fn, f, in)
					}
				}
			}
		}
	}
	w.cg = cg
	return cg
}

func funcValue(v ssa.Value) *ssa.Function {
	switch x := v.(type) {
	case *ssa.Function:
		return x
	case *ssa.MakeClosure:
		f, _ := x.Fn.(*ssa.Function)
		return f
	case *ssa.ChangeType:
		return funcValue(x.X)
	}
	return nil
}

func (cg *CG) resolveInvoke(c *ssa.CallCommon) []*ssa.Function {
	iface, ok := c.Value.Type().Underlying().(*types.Interface)
	if !ok {
		return nil
	}
	var out []*ssa.Function
	seen := map[*ssa.Function]bool{}
	for _, t := range cg.types {
		if !types.Implements(t, iface) {
			continue
		}
		ms := cg.w.Prog.MethodSets.MethodSet(t)
		sel := ms.Lookup(c.Method.Pkg(), c.Method.Name())
		if sel == nil {
			continue
		}
		fn := cg.w.Prog.MethodValue(sel)
		if fn == nil {
			continue
		}
		// unwrap synthetic wrappers to the declared method when possible
		if fn.Synthetic != "" {
			if f, ok := sel.Obj().(*types.Func); ok {
				if d := cg.w.Prog.FuncValue(f); d != nil && d.Blocks != nil {
					fn = d
				}
			}
		}
		if fn.Blocks == nil || seen[fn] {
			continue
		}
		if fn.Pkg == nil || !strings.HasPrefix(fn.Pkg.Pkg.Path(), modPath) {
			continue
		}
		seen[fn] = true
		out = append(out, fn)
	}
	sort.Slice(out, func(i, j int) bool { return out[i].String() < out[j].String() })
	return out
}

// Ops returns the direct store operations of fn (cached).
func (cg *CG) Ops(fn *ssa.Function) []StoreOp {
	if ops, ok := cg.ops[fn]; ok {
		return ops
	}
	ops := cg.w.StoreOps(cg.w.FI(fn))
	cg.ops[fn] = ops
	return ops
}

// Effects returns the transitive store effects of fn as "Op:class" strings.
func (cg *CG) Effects(fn *ssa.Function) map[string]bool {
	if e, ok := cg.writes[fn]; ok {
		return e
	}
	out := map[string]bool{}
	cg.writes[fn] = out // cycle guard (fixpoint below is by DFS over reachable set)
	for _, r := range cg.Reachable(fn) {
		for _, op := range cg.Ops(r) {
			out[op.Op+":"+op.Class()] = true
		}
	}
	return out
}

// Writes reports whether fn (transitively) performs a Set or Delete.
func (cg *CG) Writes(fn *ssa.Function) []string {
	var out []string
	for e := range cg.Effects(fn) {
		if strings.HasPrefix(e, "Set:") || strings.HasPrefix(e, "Delete:") {
			out = append(out, e)
		}
	}
	sort.Strings(out)
	return out
}

// Reachable returns fn and every repository function reachable from it.
func (cg *CG) Reachable(fn *ssa.Function) []*ssa.Function {
	seen := map[*ssa.Function]bool{fn: true}
	stack := []*ssa.Function{fn}
	var out []*ssa.Function
	for len(stack) > 0 {
		f := stack[len(stack)-1]
		stack = stack[:len(stack)-1]
		out = append(out, f)
		for c := range cg.Callees[f] {
			if !seen[c] {
				seen[c] = true
				stack = append(stack, c)
			}
		}
	}
	sort.Slice(out, func(i, j int) bool { return out[i].String() < out[j].String() })
	return out
}

// CallWrites returns the write effects ("Set:class"/"Delete:class") a call instruction
// may have through repository code.
func (cg *CG) CallWrites(ci ssa.CallInstruction) []string {
	c := ci.Common()
	set := map[string]bool{}
	var targets []*ssa.Function
	if c.IsInvoke() {
		targets = cg.resolveInvoke(c)
	} else if f := c.StaticCallee(); f != nil && f.Blocks != nil {
		targets = []*ssa.Function{f}
	}
	for _, t := range targets {
		for _, e := range cg.Writes(t) {
			set[e] = true
		}
	}
	var out []string
	for e := range set {
		out = append(out, e)
	}
	sort.Strings(out)
	return out
}

// TransitiveCallers returns every function from which target is reachable.
func (cg *CG) TransitiveCallers(target *ssa.Function) map[*ssa.Function]bool {
	seen := map[*ssa.Function]bool{}
	stack := []*ssa.Function{target}
	for len(stack) > 0 {
		f := stack[len(stack)-1]
		stack = stack[:len(stack)-1]
		for c := range cg.Callers[f] {
			if !seen[c] {
				seen[c] = true
				stack = append(stack, c)
			}
		}
	}
	return seen
}
