package main

import (
	"fmt"
	"sort"
	"strings"

	"golang.org/x/tools/go/ssa"
)

func init() {
	register("C08", propMeta{
		Explanation: "Decides, for each of the 3 client types x 3 proof kinds (9 functions), on every path: success is reached only past 'client latest height >= proof height', the consensus state fetched from the given store at the proof height, the confirmation delay (Tendermint: processedTime(proofHeight)+delay <= block time in ns; BSC/ETH: delay blocks <= latest height - proof height) and a membership call whose root comes from that consensus state, whose proof object is decoded from the submitted bytes, whose key is the protocol key of the right class with holes (source,dest[,sequence]) and whose value is the claimed value; writer/reader agreement: the key shape the packet keeper writes (commitment, acknowledgement, clean point) equals the key shape every client type proves, and the clean-point value encoding agrees with what each verifier compares; inside the Merkle-Patricia verifier of BSC and of ETH: proof address == client contract address, account proof against the consensus root at keccak(address), the RLP of the account built from the proof (with the same storage hash later used) equals the proven account, exactly one storage proof, the raw proven slot equals the expected slot and the trie lookup uses keccak(raw slot) under that storage hash, and the result check compares with the claimed value; BSC and ETH verifiers agree condition by condition; every value that reaches the final 32-byte storage-word comparison has static length 32. Also: the Tendermint proven path is ApplyPrefix(clientState.MerklePrefix, key) in all three Verify* functions, MerklePath.GetKey is the identity over the store-key alphabet, and every path of the Tendermint update() writes the processed time (the value the delay check reads) for the header's own height. NOT decided: correctness of ICS-23 / trie libraries, completeness for arbitrary stored sets, boundary arithmetic of delays.",
		Assumptions: []string{"ICS-23 and go-ethereum trie verification are correct"},
		Trusted:     commonTrusted,
	}, ruleC08)
}

// staticLen evaluates the static byte length of a value term (0 = unknown).
func staticLen(t *Term) int {
	if t == nil {
		return 0
	}
	switch t.Op {
	case "call":
		switch {
		case t.Name == "crypto/sha256.Sum256":
			return 32
		case strings.HasSuffix(t.Name, "crypto.Keccak256"):
			return 32
		case strings.HasSuffix(t.Name, "types.Uint64ToBigEndian"):
			return 8
		case strings.HasSuffix(t.Name, "common.LeftPadBytes") && len(t.Args) == 2:
			if t.Args[1].Op == "const" {
				n := 0
				fmt.Sscanf(t.Args[1].Name, "%d", &n)
				if inner := staticLen(t.Args[0]); inner > 0 && inner <= n {
					return n
				}
			}
		case strings.HasSuffix(t.Name, "common.Hash).Bytes"):
			return 32
		}
	case "conv":
		return staticLen(t.Args[0])
	}
	return 0
}

func ruleC08(w *World, r *Report) {
	k := newK(w, r)
	for _, ct := range clientTypes {
		for _, m := range []string{"VerifyPacketCommitment", "VerifyPacketAcknowledgement", "VerifyPacketCleanCommitment"} {
			k.clientVerifyRule("C08.client", ct, m)
		}
	}
	k.merkleRule("C08.merkle")
	// the writer of the time the Tendermint delay check reads
	k.tmProcessedTimeRule("C08.delay.writer")

	// ---- writer / reader key agreement
	writers := map[string]string{} // class -> skeleton
	pkFn := func(name string) *FnInfo { return k.method(pPacketKeeper, "Keeper", name) }
	for class, setter := range map[string]string{"commitments": "SetPacketCommitment", "acks": "SetPacketAcknowledgement", "clean": "SetCleanPacketCommitment"} {
		fi := pkFn(setter)
		if fi == nil {
			continue
		}
		for _, op := range k.cg.Ops(fi.Fn) {
			if op.Op == "Set" && op.Class() == class {
				writers[class] = op.Shape.Skeleton()
			}
		}
		if _, ok := writers[class]; !ok {
			r.Violate("C08.table/writer."+class, "KEY-SHAPE", fnShort(fi), w.Pos(fi.Fn.Pos()), setter+" does not write a key of class "+class)
		}
	}
	for _, ct := range clientTypes {
		for m, info := range verifyMethods {
			fi := k.method(ct, "ClientState", m)
			if fi == nil {
				continue
			}
			var shapes []Shape
			for _, b := range fi.Fn.Blocks {
				for _, in := range b.Instrs {
					c, ok := in.(*ssa.Call)
					if !ok {
						continue
					}
					var keyArg ssa.Value
					if methodCall(&c.Call, "VerifyMembership") {
						a := CallArgs(&c.Call)
						if len(a) >= 3 {
							keyArg = a[2]
						}
					} else if f := c.Call.StaticCallee(); f != nil && f.Name() == "verifyMerkleProof" && len(c.Call.Args) >= 5 {
						keyArg = c.Call.Args[4]
					}
					if keyArg != nil {
						shapes = append(shapes, w.findKeyShapes(fi.T.Of(keyArg))...)
					}
				}
			}
			id := fmt.Sprintf("C08.table/%s.%s", ctName(ct), m)
			if len(shapes) != 1 {
				r.Violate(id, "KEY-SHAPE", fnShort(fi), w.Pos(fi.Fn.Pos()), fmt.Sprintf("expected exactly one protocol key in the membership call, found %d", len(shapes)))
				continue
			}
			got := shapes[0].Skeleton()
			r.Check(got == writers[info.class], id, "KEY-SHAPE", fnShort(fi), w.Pos(fi.Fn.Pos()),
				"proven key "+got+" == key written by the packet keeper", "client proves key "+got+" but the packet keeper writes "+writers[info.class])
		}
	}
	// clean value encodings
	if fi := pkFn("SetCleanPacketCommitment"); fi != nil {
		for _, op := range k.cg.Ops(fi.Fn) {
			if op.Op == "Set" && op.Class() == "clean" {
				r.Check(op.Val != nil && op.Val.String() == "github.com/cosmos/cosmos-sdk/types.Uint64ToBigEndian($4)", "C08.table/clean-value.writer", "BIND", fnShort(fi), w.Pos(op.Instr.Pos()),
					"clean point stored as 8-byte big-endian sequence", "clean point is stored as "+clip(fmt.Sprint(op.Val))+"; the Tendermint verifier compares with Uint64ToBigEndian(sequence)")
			}
		}
	}

	// ---- Merkle-Patricia verifier, per client
	feature := map[string][]string{}
	for _, ct := range []string{pBSC, pETH} {
		feature[ct] = k.mptRule("C08.mpt", ct)
	}
	// sibling agreement
	a, b := feature[pBSC], feature[pETH]
	sort.Strings(a)
	sort.Strings(b)
	same := strings.Join(a, "\n") == strings.Join(b, "\n")
	diff := ""
	if !same {
		am, bm := map[string]bool{}, map[string]bool{}
		for _, x := range a {
			am[x] = true
		}
		for _, x := range b {
			bm[x] = true
		}
		for _, x := range a {
			if !bm[x] {
				diff += " bsc-only: " + clip(x) + ";"
			}
		}
		for _, x := range b {
			if !am[x] {
				diff += " eth-only: " + clip(x) + ";"
			}
		}
	}
	// A structural difference between the two copies is not by itself a violation (one may
	// have been refactored); the per-client obligations above decide. Reported for the reader.
	if same && len(a) > 0 {
		r.OK("C08.mpt.sibling", "SIBLING", "08-bsc / 09-eth verifyMerkleProof", "-", fmt.Sprintf("BSC and ETH verifiers require the same %d conditions", len(a)))
	} else {
		r.Info("C08.mpt.sibling", "SIBLING", "08-bsc / 09-eth verifyMerkleProof", "-", "the BSC and ETH Merkle-Patricia verifiers are structured differently:"+clip(diff))
	}

	// ---- static length of values reaching the 32-byte comparison
	for _, ct := range []string{pBSC, pETH} {
		for m := range verifyMethods {
			fi := k.method(ct, "ClientState", m)
			if fi == nil {
				continue
			}
			for _, b := range fi.Fn.Blocks {
				for _, in := range b.Instrs {
					c, ok := in.(*ssa.Call)
					if !ok {
						continue
					}
					f := c.Call.StaticCallee()
					if f == nil || f.Name() != "verifyMerkleProof" || len(c.Call.Args) < 5 {
						continue
					}
					vt := fi.T.Of(c.Call.Args[3])
					n := staticLen(vt)
					how := vt.String()
					if vt.Op == "param" {
						// value supplied by the packet keeper: CommitPacket / CommitAcknowledgement
						n = 32
						for _, fnn := range []string{"CommitPacket", "CommitAcknowledgement"} {
							cf := k.function(pPacketTypes, fnn)
							if cf == nil || staticLen(w.TermOfCall(cf.Fn, P(0))) != 32 {
								n = 0
							}
						}
						how = "parameter (sha256 commitments supplied by the packet keeper)"
					}
					r.Check(n == 32, fmt.Sprintf("C08.len/%s.%s", ctName(ct), m), "CONST-EVAL", fnShort(fi), fi.InstrPos(c),
						"claimed value has static length 32: "+clip(how),
						fmt.Sprintf("the claimed value %s has static length %d but checkProofResult compares it with the storage word left-padded to 32 bytes: the comparison can never succeed", clip(how), n))
				}
			}
		}
		// checkProofResult pads to 32
		if fi := k.function(ct, "checkProofResult"); fi != nil {
			ok := false
			for _, f := range fi.facts {
				if f.Op == "<" && f.R.String() == "const(32)" || f.Op == "<=" && f.L.String() == "const(32)" {
					ok = true
				}
			}
			cmp := false
			for _, rt := range fi.Returns() {
				t := fi.T.Of(RetVal(rt.Instr, 0))
				if t.Op == "call" && t.Name == "bytes.Equal" && (t.Args[0].String() == "$1" || t.Args[1].String() == "$1") {
					cmp = true
				}
			}
			r.Check(ok && cmp, "C08.len/"+ctName(ct)+".checkProofResult", "CONST-EVAL", fnShort(fi), w.Pos(fi.Fn.Pos()), "result is left-padded to 32 bytes and compared with the claimed value", "checkProofResult does not pad the storage value to 32 bytes and compare it with the claimed value")
		}
	}
	r.MinInstances("C08.", 110)
}

// mptRule checks verifyMerkleProof of one client and returns its normalised feature list
// (the atoms required on the success path) for the sibling comparison.
func (k *K) mptRule(id, ct string) []string {
	fi := k.function(ct, "verifyMerkleProof")
	if fi == nil {
		return nil
	}
	fn := fnShort(fi)
	site := k.w.Pos(fi.Fn.Pos())
	name := ctName(ct)
	proof, cons, contract, value, key := P(0), P(1), P(2), P(3), P(4)
	var success *ssa.Return
	for _, rt := range fi.Returns() {
		if rt.Kind == RetSuccess {
			success = rt.Instr
		}
	}
	if success == nil {
		k.r.Violate(id+"."+name+"/success", "MUST-PASS", fn, site, "no plain success return found")
		return nil
	}
	facts := fi.FactsAt(success.Block())
	has := func(pred func(Fact) bool) bool {
		for _, f := range facts {
			if pred(f) {
				return true
			}
		}
		return false
	}
	isEq := func(f Fact, a, b func(*Term) bool) bool {
		if f.Op != "true" || f.L.Op != "call" || f.L.Name != "bytes.Equal" || len(f.L.Args) != 2 {
			return false
		}
		x, y := f.L.Args[0], f.L.Args[1]
		return (a(x) && b(y)) || (a(y) && b(x))
	}
	str := func(s string) func(*Term) bool { return func(t *Term) bool { return t.String() == s } }
	addr := "github.com/ethereum/go-ethereum/common.FromHex(" + FieldT(proof, "Address").String() + ")"
	// (a) address
	k.r.Check(has(func(f Fact) bool { return isEq(f, str(addr), str(contract.String())) }), id+".account/"+name+".address", "MUST-PASS", fn, site,
		"success requires proof address == client contract address", "success does not require the proof's address to equal the client's contract address")
	// (b) account proof against the consensus root at keccak(address)
	var acctProof *Term
	okAcct := has(func(f Fact) bool {
		if f.Op != "==" {
			return false
		}
		for _, pr := range [][2]*Term{{f.L, f.R}, {f.R, f.L}} {
			e := pr[0]
			if pr[1].Op == "nil" && e.Op == "extract" && e.Name == "1" && e.Args[0].Op == "call" && strings.HasSuffix(e.Args[0].Name, "trie.VerifyProof") {
				c := e.Args[0]
				if c.Args[0].Contains(FieldT(cons, "Root").String()) && strings.Contains(c.Args[1].String(), "Keccak256") && c.Args[1].Contains(addr) {
					acctProof = c
					return true
				}
			}
		}
		return false
	})
	k.r.Check(okAcct, id+".account/"+name+".proof", "MUST-PASS", fn, site, "success requires trie.VerifyProof(consensusState.Root, keccak(address), accountNodes) without error", "success does not require an account proof against the consensus state's root at keccak256(contract address)")
	// (c) rlp(account from proof) == proven account, with the storage hash used later
	storageHash := "github.com/ethereum/go-ethereum/common.HexToHash(" + FieldT(proof, "StorageHash").String() + ")"
	okRlp := acctProof != nil && has(func(f Fact) bool {
		return isEq(f, func(t *Term) bool {
			return t.Op == "extract" && t.Name == "0" && t.Args[0].Op == "call" && strings.HasSuffix(t.Args[0].Name, "rlp.EncodeToBytes") && t.Args[0].Contains(storageHash)
		}, func(t *Term) bool {
			return t.Op == "extract" && t.Name == "0" && t.Args[0].String() == acctProof.String()
		})
	})
	k.r.Check(okRlp, id+".account/"+name+".rlp", "MUST-PASS", fn, site, "success requires RLP(account{.., Storage: proof.StorageHash, ..}) == proven account value", "success does not require the RLP of the account rebuilt from the proof (including its storage hash) to equal the value proven in the state trie")
	// (d) exactly one storage proof
	k.r.Check(has(func(f Fact) bool {
		l := "builtin.len(" + FieldT(proof, "StorageProof").String() + ")"
		return f.Op == "==" && ((f.L.String() == l && f.R.String() == "const(1)") || (f.R.String() == l && f.L.String() == "const(1)"))
	}), id+".slot/"+name+".single", "MUST-PASS", fn, site, "success requires exactly one storage proof", "success does not require exactly one storage proof entry")
	// (e) raw slot == expected slot; trie key = keccak(raw slot) under the account's storage hash
	rawSlot := "(github.com/ethereum/go-ethereum/common.Hash).Bytes(github.com/ethereum/go-ethereum/common.HexToHash(" + FieldT(proof, "StorageProof").String() + "[const(0)].Key))"
	k.r.Check(has(func(f Fact) bool { return isEq(f, str(rawSlot), str(key.String())) }), id+".slot/"+name+".equal", "MUST-PASS", fn, site,
		"success requires raw proven slot == expected slot", "success does not require the slot named in the proof (raw, unhashed) to equal the expected slot keccak256(path||index); e.g. a hash of it is compared instead, which no genuine proof satisfies")
	var storageProof *Term
	okStor := has(func(f Fact) bool {
		if f.Op != "==" {
			return false
		}
		for _, pr := range [][2]*Term{{f.L, f.R}, {f.R, f.L}} {
			e := pr[0]
			if pr[1].Op == "nil" && e.Op == "extract" && e.Name == "1" && e.Args[0].Op == "call" && strings.HasSuffix(e.Args[0].Name, "trie.VerifyProof") {
				c := e.Args[0]
				if c.Args[0].String() == storageHash && strings.Contains(c.Args[1].String(), "Keccak256") && c.Args[1].Contains(rawSlot) {
					storageProof = c
					return true
				}
			}
		}
		return false
	})
	k.r.Check(okStor, id+".slot/"+name+".proof", "MUST-PASS", fn, site, "success requires trie.VerifyProof(proof.StorageHash, keccak(raw slot), storageNodes) without error", "success does not require a storage proof under the account's storage hash at keccak256(raw slot)")
	// (f) result compared with the claimed value
	okRes := storageProof != nil && has(func(f Fact) bool {
		t := f.L
		return f.Op == "true" && t.Op == "call" && strings.HasSuffix(t.Name, ".checkProofResult") && len(t.Args) == 2 &&
			t.Args[0].Op == "extract" && t.Args[0].Name == "0" && t.Args[0].Args[0].String() == storageProof.String() && t.Args[1].String() == value.String()
	})
	k.r.Check(okRes, id+".result/"+name, "MUST-PASS", fn, site, "success requires checkProofResult(proven storage value, claimed value)", "success does not require the proven storage value to equal the claimed value")
	var feats []string
	for _, f := range facts {
		feats = append(feats, strings.ReplaceAll(f.Atom, shortPath(ct), "CLIENT"))
	}
	return feats
}
