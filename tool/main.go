package main

import (
	"encoding/json"
	"flag"
	"fmt"
	"os"
	"path/filepath"
	"sort"
	"strconv"
	"strings"

	"golang.org/x/tools/go/ssa"
)

// Rule is the entry point of one property's static rules.
type Rule struct {
	ID   string
	Run  func(w *World, r *Report)
	Meta propMeta
}

var rules = map[string]*Rule{}

func register(id string, meta propMeta, run func(w *World, r *Report)) {
	rules[id] = &Rule{ID: id, Run: run, Meta: meta}
}

var commonTrusted = []string{
	"go/types type checker and golang.org/x/tools/go/ssa (v0.29.0) SSA construction",
	"go/packages loading of /repo's working tree with the repository's own go.mod",
	"cosmos-sdk store branching (a message that returns an error has its writes discarded)",
}

func main() {
	if len(os.Args) < 2 {
		fmt.Fprintln(os.Stderr, "usage: tibcvet check|dump|list ...")
		os.Exit(2)
	}
	switch os.Args[1] {
	case "check":
		os.Exit(cmdCheck(os.Args[2:]))
	case "dump":
		os.Exit(cmdDump(os.Args[2:]))
	case "matrix":
		// one load, every property's rules; prints one line per property with the ids of
		// violated/undecided obligations that are not known findings (no evidence written)
		mrepo := "/repo"
		if len(os.Args) > 2 {
			mrepo = os.Args[2]
		}
		w, err := Load(mrepo, nil, "")
		if err != nil {
			fmt.Println("CHECK-BROKEN", err)
			os.Exit(2)
		}
		known, _ := loadKnown("/verif/known_findings.txt")
		ids := make([]string, 0, len(rules))
		for id := range rules {
			ids = append(ids, id)
		}
		sort.Strings(ids)
		for _, id := range ids {
			rep := NewReport(id, "quick")
			func() {
				defer func() {
					if e := recover(); e != nil {
						rep.Broken = append(rep.Broken, fmt.Sprint("panic: ", e))
					}
				}()
				rules[id].Run(w, rep)
			}()
			var bad []string
			for _, o := range rep.Obs {
				if o.Status != "violated" && o.Status != "undecided" {
					continue
				}
				isKnown := false
				for _, k := range known {
					if k.Property == id && k.ObID == o.ID {
						isKnown = true
					}
				}
				if !isKnown {
					bad = append(bad, o.ID)
				}
			}
			status := "ok"
			if len(bad) > 0 {
				status = "VIOLATION"
			} else if len(rep.Broken) > 0 {
				status = "BROKEN " + strings.Join(rep.Broken, "; ")
			}
			fmt.Printf("%s %s %s\n", id, status, strings.Join(bad, " "))
		}
	case "effects":
		w, err := Load("/repo", nil, "")
		if err != nil {
			fmt.Fprintln(os.Stderr, err)
			os.Exit(2)
		}
		for _, fn := range w.Funcs {
			if !w.IsProd(fn) {
				continue
			}
			for _, op := range w.StoreOps(w.Info(fn)) {
				fmt.Printf("%-8s %-60s %s  [%s]\n", op.Op, op.Shape.String(), fn.String(), w.Pos(op.Instr.Pos()))
			}
		}
	case "warm":
		w, err := Load("/repo", nil, "")
		if err != nil {
			fmt.Fprintln(os.Stderr, err)
			os.Exit(2)
		}
		fmt.Printf("loaded %d packages, %d source functions\n", len(w.Pkgs), len(w.Funcs))
	case "list":
		ids := make([]string, 0, len(rules))
		for id := range rules {
			ids = append(ids, id)
		}
		sort.Strings(ids)
		if len(os.Args) > 2 && os.Args[2] == "-json" {
			m := map[string]string{}
			for _, id := range ids {
				m[id] = rules[id].Meta.Explanation
			}
			bz, _ := json.MarshalIndent(m, "", " ")
			fmt.Println(string(bz))
			return
		}
		fmt.Println(strings.Join(ids, " "))
	default:
		fmt.Fprintln(os.Stderr, "unknown command", os.Args[1])
		os.Exit(2)
	}
}

func loadOverlay(path string) (map[string][]byte, error) {
	if path == "" {
		return nil, nil
	}
	bz, err := os.ReadFile(path)
	if err != nil {
		return nil, err
	}
	var m map[string]string
	if err := json.Unmarshal(bz, &m); err != nil {
		return nil, err
	}
	out := map[string][]byte{}
	for k, v := range m {
		out[k] = []byte(v)
	}
	return out, nil
}

func cmdCheck(args []string) int {
	fs := flag.NewFlagSet("check", flag.ExitOnError)
	prop := fs.String("property", "", "property id (C01..C20)")
	tier := fs.String("tier", "quick", "quick|thorough")
	repo := fs.String("repo", "/repo", "repository root")
	verif := fs.String("verif", "/verif", "verification directory (evidence, known findings)")
	overlay := fs.String("overlay", "", "JSON file {abs path: content} of in-memory source overlays (self-test)")
	noEvidence := fs.Bool("no-evidence", false, "do not write evidence (self-test runs)")
	tags := fs.String("tags", "", "build tags for loading the repository (second build configuration)")
	_ = fs.Parse(args)
	rule := rules[*prop]
	if rule == nil {
		fmt.Fprintf(os.Stderr, "no rules registered for property %q\n", *prop)
		return 2
	}
	ov, err := loadOverlay(*overlay)
	if err != nil {
		fmt.Fprintln(os.Stderr, "overlay:", err)
		return 2
	}
	seed := 0
	if s := os.Getenv("VERIF_SEED"); s != "" {
		seed, _ = strconv.Atoi(s)
	}
	rep := NewReport(*prop, *tier)
	w, err := Load(*repo, ov, *tags)
	if err != nil {
		fmt.Printf("CHECK-BROKEN cannot load %s: %v\n", *repo, err)
		return 2
	}
	rep.Stats["packages_loaded"] = len(w.Pkgs)
	rep.Stats["functions_loaded"] = len(w.Funcs)
	func() {
		defer func() {
			if e := recover(); e != nil {
				rep.Broken = append(rep.Broken, fmt.Sprintf("panic in rule engine: %v", e))
				if os.Getenv("TIBCVET_DEBUG") != "" {
					panic(e)
				}
			}
		}()
		rule.Run(w, rep)
	}()
	if *tier == "thorough" && *overlay == "" && *tags == "" {
		// self-test of the checker: seeded changes must be reported, behaviour-preserving
		// refactorings must stay silent (each in a separate analyser process, as an overlay)
		files := map[string]bool{}
		for _, o := range rep.Obs {
			if i := strings.LastIndex(o.Site, ":"); i > 0 {
				files[o.Site[:i]] = true
			}
		}
		res := selfTest(*prop, *repo, *verif, files)
		counts := map[string]int{}
		for _, v := range res {
			counts[v.Kind+"_"+v.Result]++
			switch v.Result {
			case "survived", "fired", "error":
				fmt.Printf("SELFTEST-WARN %s variant %s: %s %s\n", v.Kind, v.Name, v.Result, v.Detail)
			}
		}
		rep.Extra = map[string]interface{}{"selftest_variants": res}
		for k, n := range counts {
			rep.Stats["selftest_"+k] = n
		}
		fmt.Printf("selftest: mutants killed=%d survived=%d, benign silent=%d fired=%d unrelated=%d, skipped=%d, errors=%d\n",
			counts["mutant_killed"], counts["mutant_survived"], counts["benign_silent"], counts["benign_fired"], counts["benign_unrelated"],
			counts["mutant_skipped"]+counts["benign_skipped"], counts["mutant_error"]+counts["benign_error"])
	}
	vd := *verif
	if *noEvidence {
		vd = filepath.Join(os.TempDir(), "tibcvet-noev-"+strconv.Itoa(os.Getpid()))
		_ = os.MkdirAll(vd, 0o755)
		// known findings still apply
		if bz, err := os.ReadFile(filepath.Join(*verif, "known_findings.txt")); err == nil {
			_ = os.WriteFile(filepath.Join(vd, "known_findings.txt"), bz, 0o644)
		}
		defer os.RemoveAll(vd)
	}
	cmdline := "tool/bin/tibcvet check -property " + *prop + " -tier " + *tier + " -repo " + *repo
	code := rep.Finish(vd, rule.Meta, cmdline, seed)
	if *noEvidence {
		os.RemoveAll(vd)
	}
	return code
}

func cmdDump(args []string) int {
	fs := flag.NewFlagSet("dump", flag.ExitOnError)
	repo := fs.String("repo", "/repo", "repository root")
	fnsel := fs.String("func", "", "substring of the SSA function name, e.g. '04-packet/keeper.Keeper).RecvPacket'")
	_ = fs.Parse(args)
	w, err := Load(*repo, nil, "")
	if err != nil {
		fmt.Fprintln(os.Stderr, err)
		return 2
	}
	for _, fn := range w.Funcs {
		if !strings.Contains(fn.String(), *fnsel) {
			continue
		}
		dumpFn(w, fn)
	}
	return 0
}

func dumpFn(w *World, fn *ssa.Function) {
	fi := w.Info(fn)
	fmt.Printf("=== %s  (%s)\n", fn.String(), w.Pos(fn.Pos()))
	for _, b := range fn.Blocks {
		fmt.Printf(" b%d: preds=%v facts=%v\n", b.Index, blockIdx(b.Preds), fi.AtomsAt(b))
		for _, in := range b.Instrs {
			switch x := in.(type) {
			case *ssa.If:
				fmt.Printf("    if %s -> b%d else b%d\n", fi.T.Of(x.Cond), b.Succs[0].Index, b.Succs[1].Index)
			case *ssa.Return:
				var rs []string
				for _, r := range x.Results {
					rs = append(rs, fi.T.Of(r).String())
				}
				fmt.Printf("    return %s\n", strings.Join(rs, " ; "))
			case *ssa.Store:
				fmt.Printf("    store %s <- %s\n", fi.T.Of(x.Addr), fi.T.Of(x.Val))
			case ssa.CallInstruction:
				if v, ok := in.(ssa.Value); ok {
					fmt.Printf("    %s = %s   [%s]\n", v.Name(), fi.T.Of(v), w.Pos(in.Pos()))
				} else {
					fmt.Printf("    %T %s\n", in, fi.T.callTermNoInline(x.Common()))
				}
			}
		}
	}
	for _, r := range fi.Returns() {
		fmt.Printf(" return@b%d kind=%d\n", r.Instr.Block().Index, r.Kind)
	}
}

func blockIdx(bs []*ssa.BasicBlock) []int {
	var out []int
	for _, b := range bs {
		out = append(out, b.Index)
	}
	return out
}
