package main

import (
	"fmt"
	"strings"

	"golang.org/x/tools/go/ssa"
)

func init() {
	register("C03", propMeta{
		Explanation: "Decides, on every path of the current source: in Keeper.AcknowledgePacket every write, event and success return is dominated by (i) the equal edge of bytes.Equal(stored commitment of the packet's own (source,dest,sequence), CommitPacket(packet)), (ii) the nil-error edge of ClientState.VerifyPacketAcknowledgement whose arguments are bound to the packet's src/dst/seq, CommitAcknowledgement(ack parameter), the submitted proof/height and the client+store of the dest-or-relay chain, and every success path deletes the commitment under the same key; msgServer.Acknowledgement runs the application callback only after keeper success with the same msg.Packet/msg.Acknowledgement; WriteAcknowledgement stores CommitAcknowledgement(ack) only past the non-empty and not-yet-written guards (same key); the bytes written in msgServer.RecvPacket are what OnRecvPacket returned; acknowledgements are written only from WriteAcknowledgement, the relay branch of AcknowledgePacket and InitGenesis; the three light clients' VerifyPacketAcknowledgement succeed only through height bound, consensus state at proof height, delay and a membership call over the ack key and claimed value. Also: the proof verifiers behind VerifyPacketAcknowledgement satisfy the Merkle / Merkle-Patricia obligations of C08, and the packet genesis restores commitments, acknowledgements and send sequences under the keys they were exported from (class agreement, component roles, unconditional). NOT decided: refund value exactness, forged-ack histories.",
		Assumptions: []string{"cosmos-sdk store branching discards writes of failed messages"},
		Trusted:     commonTrusted,
	}, ruleC03)
}

func ruleC03(w *World, r *Report) {
	k := newK(w, r)
	fi := k.method(pPacketKeeper, "Keeper", "AcknowledgePacket")
	if fi == nil {
		return
	}
	fn := fnShort(fi)
	pkt := paramByType(fi.Fn, "exported.PacketI")
	height := paramByType(fi.Fn, "exported.Height")
	// two []byte params: acknowledgement (first) and proof (second)
	var bytesParams []*Term
	for i, p := range fi.Fn.Params {
		if typeString(p.Type()) == "[]byte" {
			bytesParams = append(bytesParams, P(i))
		}
	}
	if r.BrokenIf(pkt == nil || height == nil || len(bytesParams) != 2, "AcknowledgePacket: parameters not identified") {
		return
	}
	ack, proof := bytesParams[0], bytesParams[1]
	pk := ifacePkt(pkt)
	sites := append(k.EffectSites(fi), returnSites(fi, "")...)

	// (i) stored commitment equals CommitPacket(packet)
	commit := w.TermOfCall(w.Func(pPacketTypes, "CommitPacket"), pkt).String()
	eqPred := func(f Fact) bool {
		if f.Op != "true" || f.L.Op != "call" || f.L.Name != "bytes.Equal" || len(f.L.Args) != 2 {
			return false
		}
		a, b := f.L.Args[0], f.L.Args[1]
		for _, pr := range [][2]*Term{{a, b}, {b, a}} {
			if pr[0].String() == commit && k.isKeyRead(pr[1], "commitments", []string{pk.src, pk.dst, pk.seq}) {
				return true
			}
		}
		return false
	}
	for _, s := range sites {
		r.Check(fi.HasFact(s.Instr.Block(), eqPred), "C03.commit.eq/"+s.What, "GUARD-DOM", fn, fi.InstrPos(s.Instr),
			s.What+" dominated by storedCommitment(src,dst,seq) == CommitPacket(packet)",
			s.What+" is reachable without the check that the stored commitment of (packet source, dest, sequence) equals CommitPacket(packet)")
	}

	// (ii) light-client verification of the acknowledgement
	verifies := callsNamed(fi, "VerifyPacketAcknowledgement")
	if len(verifies) == 0 {
		r.Violate("C03.verify/call", "MUST-PASS", fn, w.Pos(fi.Fn.Pos()), "AcknowledgePacket does not call ClientState.VerifyPacketAcknowledgement")
	}
	k.requireErrNilDominates("C03.verify.dom", fi, verifies, sites, "ClientState.VerifyPacketAcknowledgement")
	ackCommit := w.TermOfCall(w.Func(pPacketTypes, "CommitAcknowledgement"), ack).String()
	for _, v := range verifies {
		k.verifyBinding("C03.verify", fi, v, pk, proof, height, ackCommit, map[string]bool{pk.dst: true, pk.relay: true})
	}
	k.validateDominates("C03.validate.dom", fi, pkt, "")

	// (iii) commitment deleted on every success path, same key
	dels := k.callsWithEffect(fi, "Delete:commitments")
	wantKey := fmt.Sprintf("%q<str %s>%q<str %s>%q<dec %s>", "commitments/", pk.src, "/", pk.dst, "/sequences/", pk.seq)
	isDel := func(in ssa.Instruction) bool {
		for _, d := range dels {
			if ssa.Instruction(d) == in {
				return true
			}
		}
		return false
	}
	for _, s := range returnSites(fi, "") {
		path := fi.PathAvoiding(s.Instr, isDel)
		r.Check(len(dels) > 0 && path == nil, "C03.delete/"+s.What, "MUST-PASS", fn, fi.InstrPos(s.Instr),
			"every success path deletes the packet commitment", "success return reachable without deleting the packet commitment: "+fi.DescribePath(path))
	}
	for _, d := range dels {
		sh := k.KeyShapesAt(fi, d, "commitments", "Delete")
		r.Check(len(sh) == 1 && sh[0] == wantKey, "C03.delete.key", "KEY-SHAPE", fn, fi.InstrPos(d),
			"deletes "+wantKey, fmt.Sprintf("deletes %v, expected %s", sh, wantKey))
	}
	// relay branch: the ack re-committed is the verified one, under the packet's key
	for _, s := range k.callsWithEffect(fi, "Set:acks") {
		a := termsOf(fi, CallArgs(s.Common()))
		if len(a) >= 5 {
			r.Check(a[4] == ackCommit, "C03.relay.same/value", "BIND", fn, fi.InstrPos(s), "relayed ack commitment is the verified one", "relayed ack commitment is "+clip(a[4])+", expected "+ackCommit)
		}
		sh := k.KeyShapesAt(fi, s, "acks", "Set")
		want := fmt.Sprintf("%q<str %s>%q<str %s>%q<dec %s>", "acks/", pk.src, "/", pk.dst, "/sequences/", pk.seq)
		r.Check(len(sh) == 1 && sh[0] == want, "C03.relay.same/key", "KEY-SHAPE", fn, fi.InstrPos(s), "ack stored under "+want, fmt.Sprintf("ack stored under %v, expected %s", sh, want))
	}

	k.msgAckRule("C03.msg")
	k.writeAckRule("C03.write")
	k.whoMayReach("C03.ack.owner", "Set:acks", []*ssa.Function{w.Method(pPacketKeeper, "Keeper", "WriteAcknowledgement"), fi.Fn, w.Func(pPacket, "InitGenesis")})
	for _, ct := range clientTypes {
		k.clientVerifyRule("C03.client", ct, "VerifyPacketAcknowledgement")
	}
	k.commitPathRule("C03.key.cover", "PacketAcknowledgementPath")
	// the proof verifiers behind VerifyPacketAcknowledgement (shared with C01/C08)
	k.merkleRule("C03.merkle")
	for _, ct := range []string{pBSC, pETH} {
		k.mptRule("C03.mpt", ct)
	}
	// "processed at most once" across an export/import: commitments, acks and send sequences
	// are restored under the keys they were exported from (shared with C16)
	k.genesisFieldRule("C03.genesis")
	// an acknowledgement (also the relay chain's error acknowledgement) is written only after the
	// keeper verified the packet (shared with C01)
	k.msgRecvRule("C03.recv")
	// a packet the relay chain answered with an error acknowledgement is not also forwarded
	// (its later acknowledgement would overwrite the relay chain's record) (shared with C11)
	k.relayAuthRule("C03.relay")
	r.MinInstances("C03.", 50)
}

func (k *K) msgAckRule(id string) {
	fi := k.method(pCoreKeeper, "msgServer", "Acknowledgement")
	if fi == nil {
		return
	}
	fn := fnShort(fi)
	msg := paramByType(fi.Fn, "MsgAcknowledgement")
	if k.r.BrokenIf(msg == nil, "msgServer.Acknowledgement: msg parameter not identified") {
		return
	}
	mp := FieldT(msg, "Packet").String()
	acks := callsNamed(fi, "AcknowledgePacket")
	if len(acks) == 0 {
		k.r.Violate(id+".dom/call", "MUST-PASS", fn, k.w.Pos(fi.Fn.Pos()), "handler does not call PacketKeeper.AcknowledgePacket")
		return
	}
	for _, c := range acks {
		a := termsOf(fi, CallArgs(&c.Call))
		if len(a) >= 5 {
			want := []string{"", mp, FieldT(msg, "Acknowledgement").String(), FieldT(msg, "ProofAcked").String(), FieldT(msg, "ProofHeight").String()}
			names := []string{"", "packet", "acknowledgement", "proof", "height"}
			for i := 1; i < 5; i++ {
				k.r.Check(a[i] == want[i], id+".bind/"+names[i], "BIND", fn, fi.InstrPos(c), names[i]+" = "+a[i], names[i]+" argument is "+a[i]+", expected "+want[i])
			}
		}
	}
	cbs := fi.Calls(func(c *ssa.CallCommon) bool { return methodCall(c, "OnAcknowledgementPacket") })
	if len(cbs) == 0 {
		k.r.Violate(id+".dom/callback", "MUST-PASS", fn, k.w.Pos(fi.Fn.Pos()), "no OnAcknowledgementPacket invocation found")
	}
	for _, s := range cbs {
		ok := false
		for _, c := range acks {
			if fi.ErrNilDominates(c, s.Block()) {
				ok = true
			}
		}
		k.r.Check(ok, id+".dom/OnAcknowledgementPacket", "GUARD-DOM", fn, fi.InstrPos(s),
			"application ack callback dominated by PacketKeeper.AcknowledgePacket == nil",
			"application ack callback reachable without AcknowledgePacket having succeeded")
		a := termsOf(fi, CallArgs(s.Common()))
		if len(a) >= 3 {
			k.r.Check(a[1] == mp, id+".bind/callback-packet", "BIND", fn, fi.InstrPos(s), "callback receives msg.Packet", "callback receives "+a[1])
			k.r.Check(a[2] == FieldT(msg, "Acknowledgement").String(), id+".bind/callback-ack", "BIND", fn, fi.InstrPos(s), "callback receives msg.Acknowledgement", "callback receives "+a[2])
		}
	}
	for _, s := range returnSites(fi, "") {
		ok := false
		for _, c := range acks {
			if fi.ErrNilDominates(c, s.Instr.Block()) {
				ok = true
			}
		}
		k.r.Check(ok, id+".dom/"+s.What, "GUARD-DOM", fn, fi.InstrPos(s.Instr), "handler success dominated by keeper success", "handler can return success although AcknowledgePacket failed")
	}
}

func (k *K) writeAckRule(id string) {
	fi := k.method(pPacketKeeper, "Keeper", "WriteAcknowledgement")
	if fi == nil {
		return
	}
	fn := fnShort(fi)
	pkt := paramByType(fi.Fn, "exported.PacketI")
	ack := paramByType(fi.Fn, "[]byte")
	if k.r.BrokenIf(pkt == nil || ack == nil, "WriteAcknowledgement: parameters not identified") {
		return
	}
	pk := ifacePkt(pkt)
	sets := k.callsWithEffect(fi, "Set:acks")
	if len(sets) == 0 {
		k.r.Violate(id+".set/none", "MUST-PASS", fn, k.w.Pos(fi.Fn.Pos()), "WriteAcknowledgement never stores an acknowledgement")
	}
	want := fmt.Sprintf("%q<str %s>%q<str %s>%q<dec %s>", "acks/", pk.src, "/", pk.dst, "/sequences/", pk.seq)
	ackCommit := k.w.TermOfCall(k.w.Func(pPacketTypes, "CommitAcknowledgement"), ack).String()
	lenT := "builtin.len(" + ack.String() + ")"
	for _, s := range sets {
		b := s.Block()
		nonEmpty := fi.HasFact(b, func(f Fact) bool {
			return (f.Op == "!=" && ((f.L.String() == lenT && f.R.String() == "const(0)") || (f.R.String() == lenT && f.L.String() == "const(0)"))) ||
				(f.Op == "<" && f.L.String() == "const(0)" && f.R.String() == lenT)
		})
		k.r.Check(nonEmpty, id+".guards/non-empty", "GUARD-DOM", fn, fi.InstrPos(s), "ack write dominated by len(ack) != 0", "ack write reachable with an empty acknowledgement")
		sh := k.KeyShapesAt(fi, s, "acks", "Set")
		k.r.Check(len(sh) == 1 && sh[0] == want, id+".key", "KEY-SHAPE", fn, fi.InstrPos(s), "ack stored under "+want, fmt.Sprintf("ack stored under %v, expected %s", sh, want))
		notYet := false
		detail := "no dominating 'acknowledgement not yet written' check"
		for _, c := range k.presenceChecks(fi, "acks") {
			bt := boolResultTerm(fi, c)
			if bt == "" || !fi.HasAtom(b, "!"+bt) {
				continue
			}
			rd := k.KeyShapesAt(fi, c, "acks", "Get", "Has")
			if len(rd) == 1 && len(sh) == 1 && rd[0] == sh[0] {
				notYet = true
			} else {
				detail = fmt.Sprintf("existence check reads %v but the ack is written under %v", rd, sh)
			}
		}
		k.r.Check(notYet, id+".guards/not-written", "GUARD-DOM", fn, fi.InstrPos(s), "ack write dominated by the not-found edge of an existence check of the same key", detail)
		a := termsOf(fi, CallArgs(s.Common()))
		if len(a) >= 5 {
			k.r.Check(a[4] == ackCommit, id+".value", "BIND", fn, fi.InstrPos(s), "stored value = CommitAcknowledgement(ack)", "stored value is "+clip(a[4])+", expected "+ackCommit)
		}
	}
	// flow in msgServer.RecvPacket: what is written is what the application returned
	ms := k.method(pCoreKeeper, "msgServer", "RecvPacket")
	if ms == nil {
		return
	}
	cbs := callsNamed(ms, "OnRecvPacket")
	recvs := callsNamed(ms, "RecvPacket")
	for _, s := range callsNamed(ms, "WriteAcknowledgement") {
		a := termsOf(ms, CallArgs(&s.Call))
		if len(a) < 3 {
			continue
		}
		onSuccess := false
		for _, c := range recvs {
			if ms.ErrNilDominates(c, s.Block()) {
				onSuccess = true
			}
		}
		if !onSuccess {
			// the ErrUnauthorized conversion: must be an error acknowledgement
			isErrAck := strings.Contains(a[2], "Acknowledgement_Error")
			k.r.Check(isErrAck, id+".flow/unauthorized", "BIND", fnShort(ms), ms.InstrPos(s), "refusal is recorded as an error acknowledgement", "on the refusal path the bytes written are "+clip(a[2])+", not an error acknowledgement")
			continue
		}
		ok := false
		for _, cb := range cbs {
			if a[2] == ms.T.Of(cb).String()+"#1" {
				ok = true
			}
		}
		k.r.Check(ok, id+".flow/app-ack", "BIND", fnShort(ms), ms.InstrPos(s), "acknowledgement written = bytes returned by OnRecvPacket", "acknowledgement written is "+clip(a[2])+", not the bytes returned by the application callback")
	}
}
