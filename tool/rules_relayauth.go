package main

// relayAuthRule: on a relay chain a packet is re-committed for the destination only after
// the whitelist allowed it and the destination client was found. This is C11's rule; it is
// also evaluated under the properties for which "a packet that was answered with an error
// acknowledgement is not also forwarded" is a necessary condition: otherwise the refused
// packet is refunded on the source (error ack) AND delivered on the destination, and the
// destination's later acknowledgement overwrites the relay chain's record (C03: written
// once; C06: after a refund no token exists on the receiving side).
func (k *K) relayAuthRule(id string) {
	fi := k.method(pPacketKeeper, "Keeper", "RecvPacket")
	if fi == nil {
		return
	}
	fn := fnShort(fi)
	pkt := paramByType(fi.Fn, "exported.PacketI")
	if k.r.BrokenIf(pkt == nil, "RecvPacket: packet parameter not identified") {
		return
	}
	pk := ifacePkt(pkt)
	isRelayHere := func(f Fact) bool {
		return f.Op == "==" && ((f.L.String() == pk.relay && k.isChainName(f.R)) || (f.R.String() == pk.relay && k.isChainName(f.L)))
	}
	isAuth := func(f Fact) bool {
		t := f.L
		return f.Op == "true" && t.Op == "invoke" && t.Name == "Authenticate" && len(t.Args) == 5 &&
			t.Args[2].String() == pk.src && t.Args[3].String() == pk.dst && t.Args[4].String() == pk.port
	}
	destFound := func(f Fact) bool {
		t := f.L
		return f.Op == "true" && t.Op == "extract" && t.Name == "1" && t.Args[0].Op == "invoke" && t.Args[0].Name == "GetClientState" &&
			len(t.Args[0].Args) == 3 && t.Args[0].Args[2].String() == pk.dst
	}
	recommits := k.callsWithEffect(fi, "Set:commitments")
	if len(recommits) == 0 {
		k.r.Violate(id+"/none", "MUST-PASS", fn, k.w.Pos(fi.Fn.Pos()), "RecvPacket never re-commits a relayed packet")
		return
	}
	for _, s := range recommits {
		b := s.Block()
		k.r.Check(fi.HasFact(b, isRelayHere), id+".branch/recommit", "GUARD-DOM", fn, fi.InstrPos(s), "re-commitment only where this chain is the packet's relay chain", "re-commitment is not restricted to 'packet relay chain == this chain'")
		k.r.Check(fi.HasFact(b, isAuth), id+".auth/recommit", "GUARD-DOM", fn, fi.InstrPos(s), "re-commitment dominated by Authenticate(packet source, dest, port) == true", "the packet is re-committed for the destination before / without a successful whitelist check: a packet that is refused (error acknowledgement, refund on the source) can still be delivered")
		k.r.Check(fi.HasFact(b, destFound), id+".dest/recommit", "GUARD-DOM", fn, fi.InstrPos(s), "re-commitment dominated by 'destination client found'", "the packet is re-committed although the destination chain's client was not found")
	}
}
