package main

import (
	"fmt"
	"sort"
	"strings"

	"golang.org/x/tools/go/ssa"
)

func init() {
	register("C10", propMeta{
		Explanation: "Decides, on every path: ValidateCleanPacket succeeds only past 'cleanPoint(src,dst) < N', 'N <= maxAck(src,dst)' and a loop, starting at the clean point (or the next sequence) and stepping by one up to N, in which a stored commitment for (src,dst,loop variable) makes it fail; it dominates every write of CleanPacket and RecvCleanPacket; RecvCleanPacket additionally is dominated by ClientState.VerifyPacketCleanCommitment bound to the clean packet's src/dst/seq, the submitted proof/height and the client+store of the source-or-relay chain; the transitive store effects of both entries are limited to {clean point, ack deletions, receipt deletions}; the deleting loops run over (src,dst,loop variable) with loop variable <= N, step one; in the proof-gated entry the deletions precede the clean-point write; the clean point and maxAck are written only by their owners and maxAck is written as max(old,new); packets and acknowledgements at or below the clean point are refused (shared with C02). Also: the proof verifiers behind VerifyPacketCleanCommitment satisfy the Merkle / Merkle-Patricia obligations of C08. NOT decided: interleavings of cleans with out-of-order acknowledgements over histories.",
		Assumptions: []string{"cosmos-sdk store branching discards writes of failed messages"},
		Trusted:     commonTrusted,
	}, ruleC10)
}

// loopVar describes a counting loop variable: phi{init | (1 + self)}.
func loopVarParts(v *Term) (init *Term, stepOne bool, ok bool) {
	if v == nil || v.Op != "phi" || len(v.Args) != 2 {
		return nil, false, false
	}
	for i, a := range v.Args {
		if a.Op == "bin" && a.Name == "+" && len(a.Args) == 2 {
			var c, l *Term
			for _, x := range a.Args {
				if x.Op == "const" {
					c = x
				}
				if x.Op == "loop" {
					l = x
				}
			}
			if c != nil && l != nil {
				return v.Args[1-i], c.Name == "1", true
			}
		}
	}
	return nil, false, false
}

func (k *K) isMaxAckRead(t *Term, src, dst string) bool {
	if t == nil || t.Op != "call" || !strings.HasSuffix(t.Name, "types.BigEndianToUint64") || len(t.Args) != 1 {
		return false
	}
	return k.isKeyRead(t.Args[0], "maxAckSeq", []string{src, dst})
}

// failsOnly: from block start no non-failing return is reachable.
func failsOnly(fi *FnInfo, start *ssa.BasicBlock) bool {
	kinds := map[*ssa.Return]RetKind{}
	for _, r := range fi.Returns() {
		kinds[r.Instr] = r.Kind
	}
	seen := map[int]bool{start.Index: true}
	stack := []*ssa.BasicBlock{start}
	for len(stack) > 0 {
		b := stack[len(stack)-1]
		stack = stack[:len(stack)-1]
		for _, in := range b.Instrs {
			if r, ok := in.(*ssa.Return); ok && kinds[r] != RetFail {
				return false
			}
		}
		for _, s := range b.Succs {
			if !seen[s.Index] {
				seen[s.Index] = true
				stack = append(stack, s)
			}
		}
	}
	return true
}

func (k *K) validateCleanRule(id string) {
	fi := k.method(pPacketKeeper, "Keeper", "ValidateCleanPacket")
	if fi == nil {
		return
	}
	fn := fnShort(fi)
	site := k.w.Pos(fi.Fn.Pos())
	cp := paramByType(fi.Fn, "exported.CleanPacketI")
	if k.r.BrokenIf(cp == nil, "ValidateCleanPacket: parameter not identified") {
		return
	}
	pk := ifacePkt(cp)
	ok, ret := k.successRequires(fi, func(f Fact) bool {
		return f.Op == "<" && f.R.String() == pk.seq && k.isCleanRead(f.L, pk.src, pk.dst)
	}, 1)
	k.r.Check(ok, id+"/above-clean", "GUARD-DOM", fn, site, "success requires cleanPoint(src,dst) < N", "a clean request can be accepted without 'clean point of (src,dst) < N' — offending return at "+retPos(fi, ret))
	ok, ret = k.successRequires(fi, func(f Fact) bool {
		return f.Op == "<=" && f.L.String() == pk.seq && k.isMaxAckRead(f.R, pk.src, pk.dst)
	}, 1)
	k.r.Check(ok, id+"/below-maxack", "GUARD-DOM", fn, site, "success requires N <= maxAck(src,dst)", "a clean request can be accepted without 'N <= highest acknowledged sequence of (src,dst)' — offending return at "+retPos(fi, ret))
	// the loop
	var lv *Term
	ok, ret = k.successRequires(fi, func(f Fact) bool {
		if f.Op == "<" && f.L.String() == pk.seq && f.R.Op == "phi" {
			if _, _, isLoop := loopVarParts(f.R); isLoop {
				lv = f.R
				return true
			}
		}
		return false
	}, 0)
	if !k.r.Check(ok && lv != nil, id+"/loop-exit", "MUST-PASS", fn, site, "success is reached only by running the commitment scan past N", "a clean request can be accepted without scanning the sequences up to N for unacknowledged packets — offending return at "+retPos(fi, ret)) {
		return
	}
	init, stepOne, _ := loopVarParts(lv)
	initOK := k.isCleanRead(init, pk.src, pk.dst)
	if !initOK && init.Op == "bin" && init.Name == "+" {
		for i, a := range init.Args {
			if a.String() == "const(1)" && k.isCleanRead(init.Args[1-i], pk.src, pk.dst) {
				initOK = true
			}
		}
	}
	k.r.Check(initOK && stepOne, id+"/loop-range", "BIND", fn, site, "scan starts at the clean point (or the next sequence) and steps by one", fmt.Sprintf("scan starts at %s with unit step=%v; expected the clean point (or clean point+1) and step 1", clip(init.String()), stepOne))
	// presence check on commitments(src,dst,loop var) whose found-edge only fails
	found := false
	for _, f := range fi.facts {
		if f.Op != "true" || !f.Pol && f.Op == "true" {
			// consider both polarities through Atom below
		}
		t := f.L
		if f.Op != "true" && f.Op != "false" {
			continue
		}
		isHas := false
		if t.Op == "invoke" && (t.Name == "Has" || t.Name == "Get") && len(t.Args) == 2 {
			sh := normalize(append(k.w.storePrefix(t.Args[0], 0), k.w.shapeOf(t.Args[1], 0)...))
			isHas = sh.Class() == "commitments" && strings.Join(sh.HoleTerms(), ",") == strings.Join([]string{pk.src, pk.dst, lv.String()}, ",")
		} else if t.Op == "call" && strings.HasSuffix(t.Name, "HasPacketCommitment") && len(t.Args) == 5 {
			isHas = t.Args[2].String() == pk.src && t.Args[3].String() == pk.dst && t.Args[4].String() == lv.String()
		}
		if !isHas {
			continue
		}
		// the edge on which the commitment exists
		succ := f.Succ
		if f.Op == "false" {
			succ = 1 - f.Succ
		}
		if failsOnly(fi, f.If.Block().Succs[succ]) {
			found = true
		}
	}
	k.r.Check(found, id+"/loop-body", "GUARD-DOM", fn, site,
		"inside the scan a stored commitment for (src,dst,loop variable) leads only to failure",
		"the scan does not fail on a stored commitment of (src, dst, scanned sequence) — e.g. it tests a fixed sequence instead of the loop variable, or continues after finding one")
}

// cleanLoopRule: the deleting helpers delete (src,dst,V) only for V <= N, stepping by one.
func (k *K) cleanLoopRule(id, helper, class string) {
	fi := k.method(pPacketKeeper, "Keeper", helper)
	if fi == nil {
		return
	}
	fn := fnShort(fi)
	dels := k.callsWithEffect(fi, "Delete:"+class)
	if len(dels) == 0 {
		k.r.Violate(id+"/"+helper, "BIND", fn, k.w.Pos(fi.Fn.Pos()), helper+" deletes nothing of class "+class)
		return
	}
	src, dst, n := P(2), P(3), P(4)
	for _, d := range dels {
		site := fi.InstrPos(d)
		var lv *Term
		okBound := fi.HasFact(d.Block(), func(f Fact) bool {
			if f.Op == "<=" && f.R.String() == n.String() && f.L.Op == "phi" {
				if _, _, isLoop := loopVarParts(f.L); isLoop {
					lv = f.L
					return true
				}
			}
			return false
		})
		if !k.r.Check(okBound && lv != nil, id+"/"+helper+".bound", "GUARD-DOM", fn, site, "deletion guarded by loop variable <= N", "deletion is not guarded by 'loop variable <= N (the sequence parameter)'") {
			continue
		}
		_, stepOne, _ := loopVarParts(lv)
		sh := k.KeyShapesAt(fi, d, class, "Delete")
		want := wantShape(class, []string{src.String(), dst.String(), lv.String()})
		k.r.Check(len(sh) == 1 && sh[0] == want && stepOne, id+"/"+helper+".key", "KEY-SHAPE", fn, site, "deletes "+class+"(src,dst,loop variable), step one", fmt.Sprintf("deletes %v (unit step=%v), expected %s", sh, stepOne, clip(want)))
	}
}

func ruleC10(w *World, r *Report) {
	k := newK(w, r)
	k.validateCleanRule("C10.validate")
	k.cleanLoopRule("C10.range", "cleanAcknowledgementBySeq", "acks")
	k.cleanLoopRule("C10.range", "cleanReceiptBySeq", "receipts")

	allowed := map[string]bool{"Set:clean": true, "Delete:acks": true, "Delete:receipts": true}
	for _, name := range []string{"CleanPacket", "RecvCleanPacket"} {
		fi := k.method(pPacketKeeper, "Keeper", name)
		if fi == nil {
			continue
		}
		fn := fnShort(fi)
		cp := paramByType(fi.Fn, "exported.CleanPacketI")
		if r.BrokenIf(cp == nil, "%s: clean packet parameter not identified", name) {
			continue
		}
		pk := ifacePkt(cp)
		// effects
		var extra []string
		for _, e := range k.cg.Writes(fi.Fn) {
			if !allowed[e] {
				extra = append(extra, e)
			}
		}
		sort.Strings(extra)
		r.Check(len(extra) == 0, "C10.effects/"+name, "EFFECT-SET", fn, w.Pos(fi.Fn.Pos()), "write effects ⊆ {Set:clean, Delete:acks, Delete:receipts}", "cleaning also performs: "+strings.Join(extra, ", "))
		// ValidateCleanPacket dominates all sites
		sites := append(k.EffectSites(fi), returnSites(fi, "")...)
		vals := callsNamed(fi, "ValidateCleanPacket")
		k.requireErrNilDominates("C10.validate.dom/"+name, fi, vals, sites, "ValidateCleanPacket")
		for _, v := range vals {
			a := fi.T.Of(CallArgs(&v.Call)[1])
			if name == "RecvCleanPacket" {
				r.Check(a.String() == cp.String(), "C10.validate.bind/"+name, "BIND", fn, fi.InstrPos(v), "validates the submitted clean packet", "validates "+clip(a.String())+" instead of the submitted clean packet")
			} else {
				get := func(n string) string {
					if a.Op == "lit" {
						for _, kv := range a.Args {
							if kv.Name == n {
								return kv.Args[0].String()
							}
						}
					}
					return "?"
				}
				okb := get("Sequence") == pk.seq && get("DestinationChain") == pk.dst
				srcT := get("SourceChain")
				r.Check(okb, "C10.validate.bind/"+name, "BIND", fn, fi.InstrPos(v), "validates (this chain, packet dest, packet sequence)", "validates sequence="+get("Sequence")+" dest="+get("DestinationChain"))
				// the pair written later must be the validated one
				for _, s := range k.callsWithEffect(fi, "Set:clean") {
					sa := termsOf(fi, CallArgs(s.Common()))
					if len(sa) >= 4 {
						r.Check(sa[1] == srcT && sa[2] == pk.dst && sa[3] == pk.seq, "C10.clean.bind/"+name, "BIND", fn, fi.InstrPos(s), "clean point written for the validated (source,dest,N)", fmt.Sprintf("clean point written for (%s,%s,%s) but validated (%s,%s,%s)", sa[1], sa[2], sa[3], srcT, pk.dst, pk.seq))
					}
				}
				// source must be this chain
				isCN := false
				for _, b := range fi.Fn.Blocks {
					for _, in := range b.Instrs {
						if c, ok := in.(*ssa.Call); ok && fi.T.Of(c).String() == srcT && k.isChainName(fi.T.Of(c)) {
							isCN = true
						}
					}
				}
				r.Check(isCN, "C10.clean.source/"+name, "BIND", fn, fi.InstrPos(v), "source of a locally issued clean = this chain's name", "source of the locally issued clean is "+srcT)
			}
		}
		if name == "RecvCleanPacket" {
			proof := paramByType(fi.Fn, "[]byte")
			height := paramByType(fi.Fn, "exported.Height")
			verifies := callsNamed(fi, "VerifyPacketCleanCommitment")
			if len(verifies) == 0 {
				r.Violate("C10.proof/call", "MUST-PASS", fn, w.Pos(fi.Fn.Pos()), "RecvCleanPacket does not call ClientState.VerifyPacketCleanCommitment")
			}
			k.requireErrNilDominates("C10.proof.dom", fi, verifies, sites, "ClientState.VerifyPacketCleanCommitment")
			for _, v := range verifies {
				k.verifyBinding("C10.proof", fi, v, pk, proof, height, "", map[string]bool{pk.src: true, pk.relay: true})
			}
			// order: deletions precede the clean point write
			dels := append(k.callsWithEffect(fi, "Delete:receipts"), k.callsWithEffect(fi, "Delete:acks")...)
			for _, s := range k.callsWithEffect(fi, "Set:clean") {
				for _, d := range dels {
					dd := d
					path := fi.PathAvoiding(s, func(in ssa.Instruction) bool { return in == ssa.Instruction(dd) })
					r.Check(path == nil, "C10.order/"+name, "MUST-PASS", fn, fi.InstrPos(s), "deletions precede the clean-point write", "the clean point is written before (or without) the deletion at "+fi.InstrPos(d)+", which turns that deletion loop into a no-op")
				}
				sa := termsOf(fi, CallArgs(s.Common()))
				if len(sa) >= 4 {
					r.Check(sa[1] == pk.src && sa[2] == pk.dst && sa[3] == pk.seq, "C10.clean.bind/"+name, "BIND", fn, fi.InstrPos(s), "clean point written for the proven (source,dest,N)", fmt.Sprintf("clean point written for (%s,%s,%s), proven (%s,%s,%s)", sa[1], sa[2], sa[3], pk.src, pk.dst, pk.seq))
				}
			}
		} else {
			r.Info("C10.order/CleanPacket", "MUST-PASS", fn, w.Pos(fi.Fn.Pos()), "source-side CleanPacket writes the clean point before its deletion loops (no-ops there: the source holds no acks/receipts for its own outgoing pair); not a violation of the property")
		}
		k.cleanPointWrittenRule("C10.cleanpoint", name)
	}
	for _, ct := range clientTypes {
		k.clientVerifyRule("C10.client", ct, "VerifyPacketCleanCommitment")
	}
	// the proof verifiers behind VerifyPacketCleanCommitment (shared with C01/C08)
	k.merkleRule("C10.merkle")
	for _, ct := range []string{pBSC, pETH} {
		k.mptRule("C10.mpt", ct)
	}
	// owners
	clean := w.Method(pPacketKeeper, "Keeper", "CleanPacket")
	recvClean := w.Method(pPacketKeeper, "Keeper", "RecvCleanPacket")
	k.whoMayReach("C10.owner.clean", "Set:clean", []*ssa.Function{clean, recvClean})
	k.whoMayReach("C10.owner.maxack", "Set:maxAckSeq", []*ssa.Function{w.Method(pPacketKeeper, "Keeper", "WriteAcknowledgement"), w.Method(pPacketKeeper, "Keeper", "AcknowledgePacket")})
	// maxAck monotone
	if fi := k.method(pPacketKeeper, "Keeper", "SetMaxAckSequence"); fi != nil {
		for _, op := range k.cg.Ops(fi.Fn) {
			if op.Op != "Set" || op.Class() != "maxAckSeq" {
				continue
			}
			v := op.Val
			ok := false
			if v != nil && v.Op == "call" && strings.HasSuffix(v.Name, "types.Uint64ToBigEndian") && len(v.Args) == 1 && v.Args[0].Op == "phi" && len(v.Args[0].Args) == 2 {
				a, b := v.Args[0].Args[0], v.Args[0].Args[1]
				for _, pr := range [][2]*Term{{a, b}, {b, a}} {
					if pr[0].String() == P(4).String() && k.isMaxAckRead(pr[1], P(2).String(), P(3).String()) {
						cur := pr[1].String()
						for _, f := range fi.facts {
							if f.Op == "<" && f.L.String() == cur && f.R.String() == P(4).String() {
								ok = true
							}
						}
					}
				}
			}
			r.Check(ok, "C10.maxack.monotone", "BIND", fnShort(fi), w.Pos(op.Instr.Pos()), "maxAck := max(stored, sequence)", "the highest-acknowledged sequence is not written as max(stored value, new sequence): "+clip(fmt.Sprint(v)))
		}
	}
	// refusal at or below the clean point (shared with C02)
	k.validatePacketRule("C10.refuse")
	for _, name := range []string{"RecvPacket", "AcknowledgePacket"} {
		if fi := k.method(pPacketKeeper, "Keeper", name); fi != nil {
			if p := paramByType(fi.Fn, "exported.PacketI"); p != nil {
				sent := ""
				if name == "RecvPacket" {
					sent = errUnauthorized
				}
				k.validateDominates("C10.refuse.dom/"+name, fi, p, sent)
			}
		}
	}
	k.commitPathRule("C10.key.cover", "CleanPacketCommitmentPath")
	r.MinInstances("C10.", 60)
}
