package main

import (
	"fmt"
	"go/types"
	"sort"
	"strings"

	"golang.org/x/tools/go/ssa"
)

// K is the rule-writing kit: world + report + call graph.
type K struct {
	w  *World
	r  *Report
	cg *CG
}

func newK(w *World, r *Report) *K { return &K{w: w, r: r, cg: w.CallGraph()} }

// method resolves an anchor method; a missing anchor makes the check "broken" (exit 2),
// it is never reported as "property holds".
func (k *K) method(pkg, typ, name string) *FnInfo {
	fn := k.w.Method(pkg, typ, name)
	if fn == nil || fn.Blocks == nil {
		k.r.BrokenIf(true, "anchor (%s.%s).%s not found in the loaded program", shortPath(pkg), typ, name)
		return nil
	}
	k.r.Stats["functions_analysed"]++
	return k.w.FI(fn)
}

func (k *K) function(pkg, name string) *FnInfo {
	fn := k.w.Func(pkg, name)
	if fn == nil || fn.Blocks == nil {
		k.r.BrokenIf(true, "anchor %s.%s not found in the loaded program", shortPath(pkg), name)
		return nil
	}
	k.r.Stats["functions_analysed"]++
	return k.w.FI(fn)
}

func short(fn *ssa.Function) string { return funcName(fn) }

// paramByType returns the term of the first parameter whose type string ends with suffix.
func paramByType(fn *ssa.Function, suffix string) *Term {
	for i, p := range fn.Params {
		if strings.HasSuffix(typeString(p.Type()), suffix) {
			return P(i)
		}
	}
	return nil
}

func paramIndexByType(fn *ssa.Function, suffix string) int {
	for i, p := range fn.Params {
		if strings.HasSuffix(typeString(p.Type()), suffix) {
			return i
		}
	}
	return -1
}

// Site is an observable effect inside a function.
type Site struct {
	Instr ssa.Instruction
	What  string // e.g. "Set:receipts", "event", "callback:OnRecvPacket"
}

func isEmit(c *ssa.CallCommon) bool {
	if c.IsInvoke() {
		return c.Method.Name() == "EmitEvent" || c.Method.Name() == "EmitEvents" || c.Method.Name() == "EmitTypedEvent"
	}
	fn := c.StaticCallee()
	if fn == nil {
		return false
	}
	n := funcName(fn)
	return strings.HasSuffix(n, "EventManager).EmitEvent") || strings.HasSuffix(n, "EventManager).EmitEvents") ||
		strings.HasSuffix(n, ".EmitEvent") || strings.HasSuffix(n, ".EmitEvents")
}

// EffectSites lists the state writes (direct or through repository callees) and event
// emissions performed by fi's own body (closures are not descended into here; their
// effects are attributed to the call that receives them through the call graph).
func (k *K) EffectSites(fi *FnInfo) []Site {
	var out []Site
	for _, b := range fi.Fn.Blocks {
		for _, in := range b.Instrs {
			ci, ok := in.(ssa.CallInstruction)
			if !ok {
				continue
			}
			c := ci.Common()
			if isEmit(c) {
				out = append(out, Site{in, "event"})
				continue
			}
			// a same-package helper that emits events on behalf of this function
			if callee := c.StaticCallee(); callee != nil && callee.Blocks != nil && callee.Pkg == fi.Fn.Pkg {
				if _, isCall := in.(*ssa.Call); isCall && k.emitsDeep(callee, 2) {
					out = append(out, Site{in, "event"})
				}
			}
			ws := k.cg.CallWrites(ci)
			for _, wr := range ws {
				out = append(out, Site{in, wr})
			}
		}
	}
	for _, op := range k.cg.Ops(fi.Fn) {
		if op.Op == "Set" || op.Op == "Delete" {
			out = append(out, Site{op.Instr, op.Op + ":" + op.Class()})
		}
	}
	return out
}

// InfoEnv builds a function info whose terms are expressed in a caller's vocabulary.
func (w *World) InfoEnv(fn *ssa.Function, env map[*ssa.Parameter]*Term) *FnInfo {
	fi := &FnInfo{w: w, Fn: fn, reachNo: map[int]map[int]bool{}}
	fi.T = &Termer{w: w, fn: fn, env: env, visited: map[ssa.Value]bool{}, cache: map[ssa.Value]*Term{}, Inline: true}
	fi.initFacts()
	return fi
}

// OpsAt returns the store operations performed by call ci (through static in-repository
// callees, depth-limited), with key terms expressed in the caller's vocabulary.
func (k *K) OpsAt(fi *FnInfo, ci ssa.CallInstruction, depth int) []StoreOp {
	c := ci.Common()
	if c.IsInvoke() {
		var out []StoreOp
		for _, t := range k.cg.resolveInvoke(c) {
			// receiver of the implementation corresponds to the interface value
			args := append([]ssa.Value{c.Value}, c.Args...)
			out = append(out, k.opsOf(fi, t, args, depth)...)
		}
		return out
	}
	callee := c.StaticCallee()
	if callee == nil || callee.Blocks == nil {
		return nil
	}
	return k.opsOf(fi, callee, c.Args, depth)
}

func (k *K) opsOf(fi *FnInfo, callee *ssa.Function, args []ssa.Value, depth int) []StoreOp {
	if callee.Pkg == nil || !strings.HasPrefix(callee.Pkg.Pkg.Path(), modPath) {
		return nil
	}
	env := map[*ssa.Parameter]*Term{}
	for i, p := range callee.Params {
		if i < len(args) {
			env[p] = fi.T.Of(args[i])
		}
	}
	sub := k.w.InfoEnv(callee, env)
	out := k.w.StoreOps(sub)
	if depth > 0 {
		for _, b := range callee.Blocks {
			for _, in := range b.Instrs {
				if ci, ok := in.(ssa.CallInstruction); ok {
					out = append(out, k.OpsAt(sub, ci, depth-1)...)
				}
			}
		}
	}
	return out
}

// KeyShapesAt returns the distinct key shapes (as strings, caller vocabulary) that the
// call touches with one of the given ops ("Set","Get",...) in the given class.
func (k *K) KeyShapesAt(fi *FnInfo, ci ssa.CallInstruction, class string, ops ...string) []string {
	set := map[string]bool{}
	for _, op := range k.OpsAt(fi, ci, 3) {
		if op.Class() != class {
			continue
		}
		for _, o := range ops {
			if op.Op == o {
				set[op.Shape.String()] = true
			}
		}
	}
	var out []string
	for s := range set {
		out = append(out, s)
	}
	sort.Strings(out)
	return out
}

// callsWithEffect returns the call instructions of fi whose transitive effect set
// contains eff (e.g. "Set:receipts").
func (k *K) callsWithEffect(fi *FnInfo, eff string) []ssa.CallInstruction {
	var out []ssa.CallInstruction
	for _, b := range fi.Fn.Blocks {
		for _, in := range b.Instrs {
			ci, ok := in.(ssa.CallInstruction)
			if !ok {
				continue
			}
			effs := map[string]bool{}
			c := ci.Common()
			var targets []*ssa.Function
			if c.IsInvoke() {
				targets = k.cg.resolveInvoke(c)
			} else if f := c.StaticCallee(); f != nil && f.Blocks != nil {
				targets = []*ssa.Function{f}
			}
			for _, t := range targets {
				for e := range k.cg.Effects(t) {
					effs[e] = true
				}
			}
			if effs[eff] {
				out = append(out, ci)
			}
		}
	}
	return out
}

// pureReaders returns calls in fi that (transitively) only read, touching class with
// Get/Has, and that yield a boolean (directly or as a tuple component).
func (k *K) presenceChecks(fi *FnInfo, class string) []*ssa.Call {
	var out []*ssa.Call
	for _, b := range fi.Fn.Blocks {
		for _, in := range b.Instrs {
			call, ok := in.(*ssa.Call)
			if !ok {
				continue
			}
			c := call.Common()
			callee := c.StaticCallee()
			if callee == nil || callee.Blocks == nil {
				continue
			}
			effs := k.cg.Effects(callee)
			if !(effs["Get:"+class] || effs["Has:"+class]) {
				continue
			}
			if len(k.cg.Writes(callee)) > 0 {
				continue
			}
			out = append(out, call)
		}
	}
	return out
}

// boolResultTerm returns the term of the boolean result of a call (the call itself or the
// tuple component of type bool), or "".
func boolResultTerm(fi *FnInfo, c *ssa.Call) string {
	res := c.Call.Signature().Results()
	base := fi.T.Of(c)
	if res.Len() == 1 {
		if b, ok := res.At(0).Type().Underlying().(*types.Basic); ok && b.Kind() == types.Bool {
			return base.String()
		}
		return ""
	}
	for i := 0; i < res.Len(); i++ {
		if b, ok := res.At(i).Type().Underlying().(*types.Basic); ok && b.Kind() == types.Bool {
			return (&Term{Op: "extract", Name: fmt.Sprint(i), Args: []*Term{base}}).String()
		}
	}
	return ""
}

func termsOf(fi *FnInfo, vs []ssa.Value) []string {
	out := make([]string, len(vs))
	for i, v := range vs {
		out[i] = fi.T.Of(v).String()
	}
	return out
}

func fnShort(fi *FnInfo) string { return funcName(fi.Fn) }

// retDesc describes a return instruction for diagnostics.
func retDesc(fi *FnInfo, r Ret) string {
	var rs []string
	for i := range r.Instr.Results {
		rs = append(rs, fi.T.Of(RetVal(r.Instr, i)).String())
	}
	s := strings.Join(rs, ", ")
	if len(s) > 120 {
		s = s[:120] + "…"
	}
	return "return " + s
}

// ---- deep call sites --------------------------------------------------------------------
//
// A maintainer may move a block of a function into an unexported helper. The rules
// therefore look for the calls they care about in the function itself AND in the
// in-repository functions it calls statically (same module, depth-limited); the helper's
// body is analysed in the caller's vocabulary (parameters substituted by the arguments).

type DeepCall struct {
	Outer ssa.Instruction     // instruction in the root function: the call itself or the call of the helper that contains it
	Fi    *FnInfo             // info (root vocabulary) of the function that contains Call
	Call  ssa.CallInstruction // the matching call
	Inner bool                // Call lives in a helper
}

func (k *K) deepCalls(fi *FnInfo, pred func(*ssa.CallCommon) bool, depth int) []DeepCall {
	var out []DeepCall
	var walk func(cur *FnInfo, outer ssa.Instruction, d int)
	walk = func(cur *FnInfo, outer ssa.Instruction, d int) {
		for _, b := range cur.Fn.Blocks {
			for _, in := range b.Instrs {
				ci, ok := in.(ssa.CallInstruction)
				if !ok {
					continue
				}
				o := outer
				if o == nil {
					o = in
				}
				c := ci.Common()
				if pred(c) {
					out = append(out, DeepCall{Outer: o, Fi: cur, Call: ci, Inner: outer != nil})
					continue
				}
				if d <= 0 || c.IsInvoke() {
					continue
				}
				callee := c.StaticCallee()
				if callee == nil || callee.Blocks == nil || callee.Pkg == nil || callee.Pkg != cur.Fn.Pkg {
					continue
				}
				if _, isCall := in.(*ssa.Call); !isCall {
					continue // defer/go closures are not part of the straight-line logic
				}
				env := map[*ssa.Parameter]*Term{}
				for i, p := range callee.Params {
					if i < len(c.Args) {
						env[p] = cur.T.Of(c.Args[i])
					}
				}
				walk(k.w.InfoEnv(callee, env), o, d-1)
			}
		}
	}
	walk(fi, nil, depth)
	return out
}

// Args returns the argument terms (root vocabulary) of the deep call, receiver included
// for static method calls, excluded for interface invokes.
func (dc DeepCall) Args() []string { return termsOf(dc.Fi, dc.Call.Common().Args) }

// dcFacts: facts that hold at the deep call: those dominating its root-level site plus,
// for a call inside a helper, those dominating it inside the helper.
func (k *K) dcFacts(root *FnInfo, dc DeepCall) []Fact {
	out := append([]Fact{}, root.FactsAt(dc.Outer.Block())...)
	if dc.Inner {
		out = append(out, dc.Fi.FactsAt(dc.Call.Block())...)
	}
	return out
}

func (k *K) dcHas(root *FnInfo, dc DeepCall, pred func(Fact) bool) bool {
	for _, f := range k.dcFacts(root, dc) {
		if pred(f) {
			return true
		}
	}
	return false
}

func (k *K) dcHasAtom(root *FnInfo, dc DeepCall, atom string) bool {
	return k.dcHas(root, dc, func(f Fact) bool { return f.Atom == atom })
}

func (k *K) dcPos(root *FnInfo, dc DeepCall) string {
	if dc.Inner {
		return dc.Fi.InstrPos(dc.Call)
	}
	return root.InstrPos(dc.Outer)
}

// keysOf returns the sorted keys of a string set.
func keysOf(m map[string]bool) []string {
	var out []string
	for k := range m {
		out = append(out, k)
	}
	sort.Strings(out)
	return out
}
