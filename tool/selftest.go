package main

import (
	"encoding/json"
	"fmt"
	"os"
	"os/exec"
	"path/filepath"
	"sort"
	"strings"
	"sync"
)

// Self-test of the checker (thorough tier). Every variant is a unified diff against
// /repo. It is applied to *copies* of the touched files in a scratch directory and handed
// to a fresh analyser process as an in-memory overlay (go/packages Overlay), so /repo is
// never modified and nothing stays on disk. A variant whose patch no longer applies to
// the current tree is "skipped", never a failure.
//
//   mutants:  /verif/seeded/<Cxx>-*/patch*.diff, /verif/variants/mutants/<Cxx>/*.diff   -> must be reported (exit 1)
//   benign :  /verif/variants/benign/*.diff                                              -> must stay silent (exit 0)

type variantResult struct {
	Name   string `json:"name"`
	Kind   string `json:"kind"`   // mutant | benign
	Result string `json:"result"` // killed | survived | silent | fired | skipped | error
	Detail string `json:"detail,omitempty"`
}

func patchFiles(patch []byte) []string {
	var out []string
	seen := map[string]bool{}
	for _, l := range strings.Split(string(patch), "\n") {
		for _, pre := range []string{"+++ b/", "--- a/"} {
			if strings.HasPrefix(l, pre) {
				f := strings.TrimSpace(strings.TrimPrefix(l, pre))
				if f != "" && f != "/dev/null" && !seen[f] {
					seen[f] = true
					out = append(out, f)
				}
			}
		}
	}
	return out
}

// makeOverlay applies the patch to copies of the touched files and returns the overlay.
func makeOverlay(repo, patchPath string) (map[string]string, error) {
	patch, err := os.ReadFile(patchPath)
	if err != nil {
		return nil, err
	}
	files := patchFiles(patch)
	if len(files) == 0 {
		return nil, fmt.Errorf("no files in patch")
	}
	tmp, err := os.MkdirTemp("", "tibcvet-variant-")
	if err != nil {
		return nil, err
	}
	defer os.RemoveAll(tmp)
	for _, f := range files {
		src := filepath.Join(repo, f)
		dst := filepath.Join(tmp, f)
		if err := os.MkdirAll(filepath.Dir(dst), 0o755); err != nil {
			return nil, err
		}
		if bz, err := os.ReadFile(src); err == nil {
			if err := os.WriteFile(dst, bz, 0o644); err != nil {
				return nil, err
			}
		}
	}
	abs, _ := filepath.Abs(patchPath)
	cmd := exec.Command("git", "apply", "--whitespace=nowarn", abs)
	cmd.Dir = tmp
	cmd.Env = append(os.Environ(), "GIT_CEILING_DIRECTORIES="+filepath.Dir(tmp))
	if out, err := cmd.CombinedOutput(); err != nil {
		return nil, fmt.Errorf("does not apply: %s", strings.TrimSpace(string(out)))
	}
	ov := map[string]string{}
	for _, f := range files {
		bz, err := os.ReadFile(filepath.Join(tmp, f))
		if err != nil {
			continue
		}
		ov[filepath.Join(repo, f)] = string(bz)
	}
	return ov, nil
}

func runVariant(self, prop, repo, verif, patchPath, kind string) variantResult {
	name := strings.TrimPrefix(patchPath, verif+"/")
	ov, err := makeOverlay(repo, patchPath)
	if err != nil {
		return variantResult{name, kind, "skipped", err.Error()}
	}
	f, err := os.CreateTemp("", "tibcvet-overlay-*.json")
	if err != nil {
		return variantResult{name, kind, "error", err.Error()}
	}
	defer os.Remove(f.Name())
	bz, _ := json.Marshal(ov)
	f.Write(bz)
	f.Close()
	cmd := exec.Command(self, "check", "-property", prop, "-tier", "quick", "-repo", repo, "-verif", verif, "-overlay", f.Name(), "-no-evidence")
	out, err := cmd.CombinedOutput()
	code := 0
	if ee, ok := err.(*exec.ExitError); ok {
		code = ee.ExitCode()
	} else if err != nil {
		return variantResult{name, kind, "error", err.Error()}
	}
	first := ""
	for _, l := range strings.Split(string(out), "\n") {
		if strings.Contains(l, "VIOLATED") || strings.Contains(l, "UNDECIDED") || strings.Contains(l, "CHECK-BROKEN") {
			first = strings.Join(strings.Fields(l), " ")
			break
		}
	}
	if len(first) > 160 {
		first = first[:160]
	}
	switch {
	case code == 2:
		return variantResult{name, kind, "error", "checker could not analyse the variant: " + first}
	case kind == "mutant" && code == 1:
		return variantResult{name, kind, "killed", first}
	case kind == "mutant":
		return variantResult{name, kind, "survived", ""}
	case code == 0:
		return variantResult{name, kind, "silent", ""}
	default:
		return variantResult{name, kind, "fired", first}
	}
}

// selfTest runs all variants of a property with bounded parallelism.
// Benign variants that touch none of the files the property's obligations were evaluated in
// cannot change its verdict and are not re-analysed (result "unrelated"); this keeps the
// thorough tier of one property to the variants that can matter for it.
func selfTest(prop, repo, verif string, files map[string]bool) []variantResult {
	self, err := os.Executable()
	if err != nil {
		return nil
	}
	type job struct{ path, kind string }
	var jobs []job
	add := func(glob, kind string) {
		m, _ := filepath.Glob(glob)
		sort.Strings(m)
		for _, p := range m {
			k := kind
			// a seeded change that a later fix in /repo turned into a behaviour-preserving
			// one is marked by the file EXPECT_SILENT (with the reason) and must stay silent
			if _, err := os.Stat(filepath.Join(filepath.Dir(p), "EXPECT_SILENT")); err == nil && filepath.Base(p) == "patch.diff" {
				k = "benign"
			}
			jobs = append(jobs, job{p, k})
		}
	}
	add(filepath.Join(verif, "seeded", prop+"-*", "patch*.diff"), "mutant")
	add(filepath.Join(verif, "variants", "mutants", prop, "*.diff"), "mutant")
	add(filepath.Join(verif, "variants", "benign", "*.diff"), "benign")
	res := make([]variantResult, len(jobs))
	sem := make(chan struct{}, 8)
	var wg sync.WaitGroup
	for i, j := range jobs {
		wg.Add(1)
		go func(i int, j job) {
			defer wg.Done()
			sem <- struct{}{}
			defer func() { <-sem }()
			if j.kind == "benign" && len(files) > 0 {
				related := false
				if bz, err := os.ReadFile(j.path); err == nil {
					for _, f := range patchFiles(bz) {
						if files[f] {
							related = true
						}
					}
				}
				if !related {
					res[i] = variantResult{strings.TrimPrefix(j.path, verif+"/"), j.kind, "unrelated", "touches no file this property's obligations were evaluated in"}
					return
				}
			}
			res[i] = runVariant(self, prop, repo, verif, j.path, j.kind)
		}(i, j)
	}
	wg.Wait()
	return res
}
