package main

import (
	"strings"

	"golang.org/x/tools/go/ssa"
)

// Scope is a function body analysed in the vocabulary of a root function: the root
// itself, or a same-package function it calls statically (depth-limited), with the
// callee's parameters substituted by the call's arguments.
type Scope struct {
	Fi    *FnInfo
	Outer ssa.Instruction // call in the root function through which this scope is entered (nil for the root)
}

func (k *K) scopes(root *FnInfo, depth int) []Scope {
	out := []Scope{{Fi: root}}
	var walk func(cur *FnInfo, outer ssa.Instruction, d int)
	walk = func(cur *FnInfo, outer ssa.Instruction, d int) {
		if d <= 0 {
			return
		}
		for _, b := range cur.Fn.Blocks {
			for _, in := range b.Instrs {
				c, ok := in.(*ssa.Call)
				if !ok || c.Call.IsInvoke() {
					continue
				}
				callee := c.Call.StaticCallee()
				if callee == nil || callee.Blocks == nil || callee.Pkg == nil || callee.Pkg != root.Fn.Pkg || callee == root.Fn {
					continue
				}
				env := map[*ssa.Parameter]*Term{}
				for i, p := range callee.Params {
					if i < len(c.Call.Args) {
						env[p] = cur.T.Of(c.Call.Args[i])
					}
				}
				o := outer
				if o == nil {
					o = in
				}
				sub := k.w.InfoEnv(callee, env)
				out = append(out, Scope{Fi: sub, Outer: o})
				walk(sub, o, d-1)
			}
		}
	}
	walk(root, nil, depth)
	return out
}

// deepStores lists Store instructions (in the root or in its helpers) whose address term,
// in root vocabulary, satisfies pred.
type DeepStore struct {
	Scope Scope
	Store *ssa.Store
}

func (k *K) deepStores(root *FnInfo, depth int, pred func(addr *Term) bool) []DeepStore {
	var out []DeepStore
	for _, sc := range k.scopes(root, depth) {
		for _, b := range sc.Fi.Fn.Blocks {
			for _, in := range b.Instrs {
				if st, ok := in.(*ssa.Store); ok && pred(sc.Fi.T.Of(st.Addr)) {
					out = append(out, DeepStore{sc, st})
				}
			}
		}
	}
	return out
}

// factsAtScoped: facts holding at an instruction of a scope: those inside the scope plus
// those at the root-level call through which the scope was entered.
func (k *K) factsAtScoped(root *FnInfo, sc Scope, in ssa.Instruction) []Fact {
	out := append([]Fact{}, sc.Fi.FactsAt(in.Block())...)
	if sc.Outer != nil {
		out = append(out, root.FactsAt(sc.Outer.Block())...)
	}
	return out
}

// calleeInfo returns the analysis of the in-repository static callee whose call has the
// given term in fi, expressed in fi's vocabulary (parameters substituted by arguments).
func (fi *FnInfo) calleeInfo(callT *Term) *FnInfo {
	if callT == nil || callT.Op != "call" || fi.depth >= 2 {
		return nil
	}
	want := callT.String()
	for _, blk := range fi.Fn.Blocks {
		for _, in := range blk.Instrs {
			c, ok := in.(*ssa.Call)
			if !ok || c.Call.IsInvoke() || c.Call.StaticCallee() == nil || fi.T.Of(c).String() != want {
				continue
			}
			callee := c.Call.StaticCallee()
			if callee.Blocks == nil || callee.Pkg == nil || !strings.HasPrefix(callee.Pkg.Pkg.Path(), modPath) {
				return nil
			}
			env := map[*ssa.Parameter]*Term{}
			for i, p := range callee.Params {
				if i < len(c.Call.Args) {
					env[p] = fi.T.Of(c.Call.Args[i])
				}
			}
			sub := &FnInfo{w: fi.w, Fn: callee, reachNo: map[int]map[int]bool{}, depth: fi.depth + 1}
			sub.T = &Termer{w: fi.w, fn: callee, env: env, visited: map[ssa.Value]bool{}, cache: map[ssa.Value]*Term{}, Inline: true}
			sub.initFacts()
			return sub
		}
	}
	return nil
}

// boolResultRequires reports whether a boolean function can return `mode` only when some
// fact satisfying pred holds: every return that may carry `mode` is either a constant
// reached only across an edge with such a fact, or returns a condition that is itself
// such a fact when it equals `mode`. This is how a disjunction or conjunction that was
// moved into a predicate helper ("a == x || b == x || c == x") is recognised.
func (fi *FnInfo) boolResultRequires(mode bool, pred func(Fact) bool) bool {
	ms := "false"
	if mode {
		ms = "true"
	}
	anyAtom := func(v ssa.Value) bool {
		for _, a := range fi.atoms(v, mode) {
			if pred(a) {
				return true
			}
		}
		return false
	}
	// a fact satisfying pred holds on the control-flow edge from -> to: it dominates `from`,
	// or it is the condition of the branch that ends `from`, with the polarity of that edge
	onEdge := func(from, to *ssa.BasicBlock) bool {
		if fi.HasFact(from, pred) {
			return true
		}
		if len(from.Instrs) == 0 || len(from.Succs) != 2 || from.Succs[0] == from.Succs[1] {
			return false
		}
		iff, ok := from.Instrs[len(from.Instrs)-1].(*ssa.If)
		if !ok {
			return false
		}
		for _, a := range fi.atoms(iff.Cond, from.Succs[0] == to) {
			if pred(a) {
				return true
			}
		}
		return false
	}
	rets := fi.Returns()
	if len(rets) == 0 {
		return false
	}
	for _, r := range rets {
		if len(r.Instr.Results) != 1 {
			return false
		}
		v := RetVal(r.Instr, 0)
		if c, ok := v.(*ssa.Const); ok && c.Value != nil {
			if c.Value.String() != ms {
				continue
			}
			if fi.PathAvoidingX(r.Instr, nil, pred) != nil {
				return false
			}
			continue
		}
		if phi, ok := v.(*ssa.Phi); ok {
			for i, e := range phi.Edges {
				if c, ok := e.(*ssa.Const); ok && c.Value != nil {
					if c.Value.String() != ms {
						continue
					}
					if !onEdge(phi.Block().Preds[i], phi.Block()) {
						return false
					}
					continue
				}
				if !anyAtom(e) && !onEdge(phi.Block().Preds[i], phi.Block()) {
					return false
				}
			}
			continue
		}
		if !anyAtom(v) && fi.PathAvoidingX(r.Instr, nil, pred) != nil {
			return false
		}
	}
	return true
}

// edgeImplies: the fact f satisfies pred itself, or f is the boolean result of an
// in-repository predicate helper that can only have that value when pred holds.
func (fi *FnInfo) edgeImplies(f Fact, pred func(Fact) bool) bool {
	if pred(f) {
		return true
	}
	if (f.Op == "true" || f.Op == "false") && f.L != nil && f.L.Op == "call" {
		if sub := fi.calleeInfo(f.L); sub != nil {
			return sub.boolResultRequires(f.Op == "true", pred)
		}
	}
	return false
}
