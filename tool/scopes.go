package main

import (
	"golang.org/x/tools/go/ssa"
)

// Scope is a function body analysed in the vocabulary of a root function: the root
// itself, or a same-package function it calls statically (depth-limited), with the
// callee's parameters substituted by the call's arguments.
type Scope struct {
	Fi    *FnInfo
	Outer ssa.Instruction // call in the root function through which this scope is entered (nil for the root)
}

func (k *K) scopes(root *FnInfo, depth int) []Scope {
	out := []Scope{{Fi: root}}
	var walk func(cur *FnInfo, outer ssa.Instruction, d int)
	walk = func(cur *FnInfo, outer ssa.Instruction, d int) {
		if d <= 0 {
			return
		}
		for _, b := range cur.Fn.Blocks {
			for _, in := range b.Instrs {
				c, ok := in.(*ssa.Call)
				if !ok || c.Call.IsInvoke() {
					continue
				}
				callee := c.Call.StaticCallee()
				if callee == nil || callee.Blocks == nil || callee.Pkg == nil || callee.Pkg != root.Fn.Pkg || callee == root.Fn {
					continue
				}
				env := map[*ssa.Parameter]*Term{}
				for i, p := range callee.Params {
					if i < len(c.Call.Args) {
						env[p] = cur.T.Of(c.Call.Args[i])
					}
				}
				o := outer
				if o == nil {
					o = in
				}
				sub := k.w.InfoEnv(callee, env)
				out = append(out, Scope{Fi: sub, Outer: o})
				walk(sub, o, d-1)
			}
		}
	}
	walk(root, nil, depth)
	return out
}

// deepStores lists Store instructions (in the root or in its helpers) whose address term,
// in root vocabulary, satisfies pred.
type DeepStore struct {
	Scope Scope
	Store *ssa.Store
}

func (k *K) deepStores(root *FnInfo, depth int, pred func(addr *Term) bool) []DeepStore {
	var out []DeepStore
	for _, sc := range k.scopes(root, depth) {
		for _, b := range sc.Fi.Fn.Blocks {
			for _, in := range b.Instrs {
				if st, ok := in.(*ssa.Store); ok && pred(sc.Fi.T.Of(st.Addr)) {
					out = append(out, DeepStore{sc, st})
				}
			}
		}
	}
	return out
}

// factsAtScoped: facts holding at an instruction of a scope: those inside the scope plus
// those at the root-level call through which the scope was entered.
func (k *K) factsAtScoped(root *FnInfo, sc Scope, in ssa.Instruction) []Fact {
	out := append([]Fact{}, sc.Fi.FactsAt(in.Block())...)
	if sc.Outer != nil {
		out = append(out, root.FactsAt(sc.Outer.Block())...)
	}
	return out
}
