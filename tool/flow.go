package main

import (
	"fmt"
	"go/token"
	"go/types"
	"sort"
	"strings"

	"golang.org/x/tools/go/ssa"
)

// Fact is a condition known to hold on one out-edge of an If.
type Fact struct {
	Atom string // canonical atom that holds on the edge
	Op   string // "==", "!=", "<", "<=", "true", "false"
	L, R *Term  // operands (R nil for boolean atoms)
	If   *ssa.If
	Succ int // 0 = true edge, 1 = false edge
	Cond *Term
	Pol  bool
}

// FnInfo bundles per-function analyses.
type FnInfo struct {
	w     *World
	Fn    *ssa.Function
	T     *Termer
	facts []Fact
	// reachable-without-edge cache: fact index -> set of reachable block indices
	reachNo      map[int]map[int]bool
	impliedCache map[int][]Fact
	depth        int  // nesting depth when analysing a callee in a caller's vocabulary
	noImplied    bool // only facts of the function's own branches
}

func (w *World) Info(fn *ssa.Function) *FnInfo {
	fi := &FnInfo{w: w, Fn: fn, T: NewTermer(w, fn), reachNo: map[int]map[int]bool{}}
	fi.initFacts()
	return fi
}

// atoms returns the canonical atoms that hold when cond evaluates to pol.
func (fi *FnInfo) atoms(cond ssa.Value, pol bool) []Fact {
	switch c := cond.(type) {
	case *ssa.UnOp:
		if c.Op == token.NOT {
			return fi.atoms(c.X, !pol)
		}
	case *ssa.Const:
		return nil
	}
	// the term construction already normalises > and >= and sorts == / != operands
	return []Fact{boolAtom(fi.T.Of(cond), pol)}
}

func boolAtom(t *Term, pol bool) Fact {
	// a boolean term that is itself a comparison (possibly after inlining)
	if t.Op == "bin" {
		switch t.Name {
		case "==", "!=", "<", "<=":
			return cmpAtomTerm(t.Name, t.Args[0], t.Args[1], pol)
		}
	}
	if t.Op == "un" && t.Name == "!" {
		return boolAtom(t.Args[0], !pol)
	}
	if pol {
		return Fact{Atom: t.String(), Op: "true", L: t}
	}
	return Fact{Atom: "!" + t.String(), Op: "false", L: t}
}

func cmpAtomTerm(op string, a, b *Term, pol bool) Fact {
	mk := func(op string, l, r *Term) Fact {
		return Fact{Atom: l.String() + " " + op + " " + r.String(), Op: op, L: l, R: r}
	}
	switch op {
	case "==", "!=":
		if a.String() > b.String() {
			a, b = b, a
		}
		if (op == "==") == pol {
			return mk("==", a, b)
		}
		return mk("!=", a, b)
	case "<":
		if pol {
			return mk("<", a, b)
		}
		return mk("<=", b, a)
	case "<=":
		if pol {
			return mk("<=", a, b)
		}
		return mk("<", b, a)
	}
	return Fact{Atom: "?"}
}

// helpers for building expected atoms
func atomEQ(a, b string) string {
	if a > b {
		a, b = b, a
	}
	return a + " == " + b
}
func atomNE(a, b string) string {
	if a > b {
		a, b = b, a
	}
	return a + " != " + b
}
func atomLT(a, b string) string { return a + " < " + b }
func atomLE(a, b string) string { return a + " <= " + b }

// reachableWithoutEdge returns the set of block indices reachable from entry when the
// given if-edge is removed.
func (fi *FnInfo) reachableWithoutEdge(iff *ssa.If, succ int) map[int]bool {
	seen := map[int]bool{}
	if len(fi.Fn.Blocks) == 0 {
		return seen
	}
	var stack []*ssa.BasicBlock
	stack = append(stack, fi.Fn.Blocks[0])
	seen[0] = true
	for len(stack) > 0 {
		b := stack[len(stack)-1]
		stack = stack[:len(stack)-1]
		for i, s := range b.Succs {
			if b == iff.Block() && i == succ {
				// the removed edge; note both edges may lead to the same block
				continue
			}
			if !seen[s.Index] {
				seen[s.Index] = true
				stack = append(stack, s)
			}
		}
	}
	return seen
}

// FactsAt returns all facts whose edge dominates block b (every path from entry to b
// crosses that edge).
func (fi *FnInfo) FactsAt(b *ssa.BasicBlock) []Fact {
	own := fi.ownFactsAt(b)
	if fi.noImplied || fi.depth >= 2 {
		return own
	}
	if c, ok := fi.impliedCache[b.Index]; ok {
		return append(own, c...)
	}
	imp := fi.impliedFacts(own)
	if fi.impliedCache == nil {
		fi.impliedCache = map[int][]Fact{}
	}
	fi.impliedCache[b.Index] = imp
	return append(own, imp...)
}

func (fi *FnInfo) ownFactsAt(b *ssa.BasicBlock) []Fact {
	var out []Fact
	for i, f := range fi.facts {
		r, ok := fi.reachNo[i]
		if !ok {
			r = fi.reachableWithoutEdge(f.If, f.Succ)
			fi.reachNo[i] = r
		}
		if !r[b.Index] {
			out = append(out, f)
		}
	}
	return out
}

// impliedFacts: a check that was extracted into an in-repository helper still guards the
// code after it. For every dominating fact of the form
//
//	helper(args) [#i] == nil      (the helper returned no error), or
//	helper(args) is true / false  (boolean helper),
//
// the facts that hold on EVERY corresponding return of the helper (expressed in this
// function's vocabulary through parameter substitution) hold here as well.
func (fi *FnInfo) impliedFacts(own []Fact) []Fact {
	var out []Fact
	seen := map[*ssa.Call]bool{}
	for _, f := range own {
		var callT *Term
		mode := ""
		switch f.Op {
		case "==":
			for _, pr := range [][2]*Term{{f.L, f.R}, {f.R, f.L}} {
				if pr[1].Op == "nil" {
					t := pr[0]
					if t.Op == "extract" {
						t = t.Args[0]
					}
					if t.Op == "call" {
						callT, mode = t, "errnil"
					}
				}
			}
		case "true", "false":
			if f.L.Op == "call" {
				callT, mode = f.L, f.Op
			}
		}
		if callT == nil {
			continue
		}
		// find the SSA call with this term
		var call *ssa.Call
		for _, blk := range fi.Fn.Blocks {
			for _, in := range blk.Instrs {
				if c, ok := in.(*ssa.Call); ok && !c.Call.IsInvoke() && c.Call.StaticCallee() != nil && fi.T.Of(c).String() == callT.String() {
					call = c
				}
			}
		}
		if call == nil || seen[call] {
			continue
		}
		seen[call] = true
		callee := call.Call.StaticCallee()
		if callee.Blocks == nil || callee.Pkg == nil || !strings.HasPrefix(callee.Pkg.Pkg.Path(), modPath) {
			continue
		}
		env := map[*ssa.Parameter]*Term{}
		for i, p := range callee.Params {
			if i < len(call.Call.Args) {
				env[p] = fi.T.Of(call.Call.Args[i])
			}
		}
		sub := &FnInfo{w: fi.w, Fn: callee, reachNo: map[int]map[int]bool{}, depth: fi.depth + 1}
		sub.T = &Termer{w: fi.w, fn: callee, env: env, visited: map[ssa.Value]bool{}, cache: map[ssa.Value]*Term{}, Inline: true}
		sub.initFacts()
		out = append(out, sub.commonReturnFacts(mode)...)
	}
	return out
}

// commonReturnFacts returns the facts that dominate every return of the function that
// is compatible with mode: "errnil" (error result nil or unknown), "true"/"false"
// (boolean result not the opposite constant).
func (fi *FnInfo) commonReturnFacts(mode string) []Fact {
	var sets [][]Fact
	for _, r := range fi.Returns() {
		var extra []Fact
		switch mode {
		case "errnil":
			if r.Kind == RetFail {
				continue
			}
		case "true", "false":
			if len(r.Instr.Results) != 1 {
				return nil
			}
			v := RetVal(r.Instr, 0)
			if c, ok := v.(*ssa.Const); ok && c.Value != nil {
				if c.Value.String() != mode {
					continue
				}
			} else if phi, ok := v.(*ssa.Phi); ok {
				// short-circuit result: only the edges that can carry `mode`
				var live []int
				for i, e := range phi.Edges {
					if c, ok := e.(*ssa.Const); ok && c.Value != nil && c.Value.String() != mode {
						continue
					}
					live = append(live, i)
				}
				if len(live) == 1 {
					i := live[0]
					extra = append(extra, fi.FactsAt(phi.Block().Preds[i])...)
					if _, isConst := phi.Edges[i].(*ssa.Const); !isConst {
						extra = append(extra, boolAtom(fi.T.Of(phi.Edges[i]), mode == "true"))
					}
				}
			} else {
				extra = append(extra, boolAtom(fi.T.Of(v), mode == "true"))
			}
		}
		sets = append(sets, append(fi.FactsAt(r.Instr.Block()), extra...))
	}
	if len(sets) == 0 {
		return nil
	}
	// intersection by atom
	var out []Fact
	for _, f := range sets[0] {
		inAll := true
		for _, s := range sets[1:] {
			found := false
			for _, g := range s {
				if g.Atom == f.Atom {
					found = true
					break
				}
			}
			if !found {
				inAll = false
				break
			}
		}
		if inAll {
			out = append(out, f)
		}
	}
	return out
}

// HasFact reports whether some fact satisfying pred dominates block b.
func (fi *FnInfo) HasFact(b *ssa.BasicBlock, pred func(Fact) bool) bool {
	for _, f := range fi.FactsAt(b) {
		if pred(f) {
			return true
		}
	}
	return false
}

func (fi *FnInfo) HasAtom(b *ssa.BasicBlock, atom string) bool {
	return fi.HasFact(b, func(f Fact) bool { return f.Atom == atom })
}

// AtomsAt lists the atoms dominating b (for diagnostics).
func (fi *FnInfo) AtomsAt(b *ssa.BasicBlock) []string {
	var s []string
	for _, f := range fi.FactsAt(b) {
		s = append(s, f.Atom)
	}
	sort.Strings(s)
	return s
}

// ---- instructions, calls ----------------------------------------------------------

func (fi *FnInfo) Instrs(pred func(ssa.Instruction) bool) []ssa.Instruction {
	var out []ssa.Instruction
	for _, b := range fi.Fn.Blocks {
		for _, in := range b.Instrs {
			if pred(in) {
				out = append(out, in)
			}
		}
	}
	return out
}

// Calls returns call instructions (call, defer, go) whose callee satisfies pred.
func (fi *FnInfo) Calls(pred func(c *ssa.CallCommon) bool) []ssa.CallInstruction {
	var out []ssa.CallInstruction
	for _, b := range fi.Fn.Blocks {
		for _, in := range b.Instrs {
			if ci, ok := in.(ssa.CallInstruction); ok && pred(ci.Common()) {
				out = append(out, ci)
			}
		}
	}
	return out
}

// calleeIs matches a static callee by full name, or an interface method by name.
func calleeIs(c *ssa.CallCommon, names ...string) bool {
	var n string
	if c.IsInvoke() {
		n = c.Method.Name()
		for _, x := range names {
			if x == n || x == "."+n {
				return true
			}
		}
		return false
	}
	fn := c.StaticCallee()
	if fn == nil {
		return false
	}
	full := funcName(fn)
	for _, x := range names {
		if x == full {
			return true
		}
		if strings.HasPrefix(x, ".") && fn.Name() == x[1:] && fn.Signature.Recv() != nil {
			return true
		}
	}
	return false
}

// methodCall matches a call of method `name` (static on any receiver, or interface invoke).
func methodCall(c *ssa.CallCommon, name string) bool {
	if c.IsInvoke() {
		return c.Method.Name() == name
	}
	fn := c.StaticCallee()
	return fn != nil && fn.Signature.Recv() != nil && fn.Name() == name
}

// CallArgs returns the argument values of a call excluding the receiver for both
// static method calls and interface invokes.
func CallArgs(c *ssa.CallCommon) []ssa.Value {
	if c.IsInvoke() {
		return c.Args
	}
	if fn := c.StaticCallee(); fn != nil && fn.Signature.Recv() != nil && len(c.Args) > 0 {
		return c.Args[1:]
	}
	return c.Args
}

func CallRecv(c *ssa.CallCommon) ssa.Value {
	if c.IsInvoke() {
		return c.Value
	}
	if fn := c.StaticCallee(); fn != nil && fn.Signature.Recv() != nil && len(c.Args) > 0 {
		return c.Args[0]
	}
	return nil
}

// ---- returns ----------------------------------------------------------------------

type RetKind int

const (
	RetSuccess RetKind = iota // error result is the nil constant
	RetFail                   // error result provably non-nil
	RetMaybe                  // cannot tell (e.g. tail call)
	RetNoErr                  // function has no error result
)

type Ret struct {
	Instr *ssa.Return
	Kind  RetKind
}

var errorType = types.Universe.Lookup("error").Type()

func (fi *FnInfo) errIndex() int {
	res := fi.Fn.Signature.Results()
	for i := res.Len() - 1; i >= 0; i-- {
		if types.Identical(res.At(i).Type(), errorType) {
			return i
		}
	}
	return -1
}

func (fi *FnInfo) Returns() []Ret {
	var out []Ret
	ei := fi.errIndex()
	for _, b := range fi.Fn.Blocks {
		for _, in := range b.Instrs {
			r, ok := in.(*ssa.Return)
			if !ok {
				continue
			}
			if ei < 0 || ei >= len(r.Results) {
				out = append(out, Ret{r, RetNoErr})
				continue
			}
			v := RetVal(r, ei)
			switch {
			case isNilConst(v):
				out = append(out, Ret{r, RetSuccess})
			case fi.nonNil(v, b, 0):
				out = append(out, Ret{r, RetFail})
			default:
				out = append(out, Ret{r, RetMaybe})
			}
		}
	}
	return out
}

// RetVal resolves result i of a return instruction. go/ssa spills results into cells
// when the function has a defer ("*t3 = err; rundefers; return *t2, *t3"): in that case
// the value stored into the cell in the return's own block is the returned value.
func RetVal(r *ssa.Return, i int) ssa.Value {
	if i < 0 || i >= len(r.Results) {
		return nil
	}
	v := r.Results[i]
	ld, ok := v.(*ssa.UnOp)
	if !ok || ld.Op != token.MUL {
		return v
	}
	al, ok := ld.X.(*ssa.Alloc)
	if !ok {
		return v
	}
	var last ssa.Value
	for _, in := range r.Block().Instrs {
		if in == ssa.Instruction(ld) {
			break
		}
		if st, ok := in.(*ssa.Store); ok && st.Addr == ssa.Value(al) {
			last = st.Val
		}
	}
	if last != nil {
		return last
	}
	// stored in a unique predecessor chain: walk single-predecessor blocks upwards
	b := r.Block()
	for steps := 0; steps < 8 && len(b.Preds) == 1; steps++ {
		b = b.Preds[0]
		for i := len(b.Instrs) - 1; i >= 0; i-- {
			if st, ok := b.Instrs[i].(*ssa.Store); ok && st.Addr == ssa.Value(al) {
				return st.Val
			}
		}
	}
	return v
}

func isNilConst(v ssa.Value) bool {
	c, ok := v.(*ssa.Const)
	return ok && c.IsNil()
}

var errCtors = map[string]bool{
	"fmt.Errorf":                           true,
	"errors.New":                           true,
	"cosmossdk.io/errors.Register":         true,
	"cosmossdk.io/errors.New":              true,
	"google.golang.org/grpc/status.Error":  true,
	"google.golang.org/grpc/status.Errorf": true,
}

var errWrappers = map[string]bool{
	"cosmossdk.io/errors.Wrap":  true,
	"cosmossdk.io/errors.Wrapf": true,
}

// nonNil reports whether error value v is provably non-nil when control is in block b.
func (fi *FnInfo) nonNil(v ssa.Value, b *ssa.BasicBlock, depth int) bool {
	if depth > 6 {
		return false
	}
	switch x := v.(type) {
	case *ssa.Const:
		return false
	case *ssa.MakeInterface:
		// a concrete error value boxed into the interface
		if _, ok := x.X.(*ssa.Const); ok {
			return false
		}
		return true
	case *ssa.UnOp:
		if x.Op == token.MUL {
			if _, ok := x.X.(*ssa.Global); ok {
				return true // sentinel error variable
			}
		}
	case *ssa.Call:
		if fn := x.Call.StaticCallee(); fn != nil {
			n := funcName(fn)
			if errCtors[n] {
				return true
			}
			if errWrappers[n] && len(x.Call.Args) > 0 {
				return fi.nonNil(x.Call.Args[0], b, depth+1)
			}
		}
	case *ssa.Phi:
		for i, e := range x.Edges {
			if !fi.nonNil(e, x.Block().Preds[i], depth+1) {
				return false
			}
		}
		return true
	}
	t := fi.T.Of(v).String()
	want := atomNE(t, "nil")
	return fi.HasAtom(b, want)
}

// ---- must-pass-through ------------------------------------------------------------

// PathAvoiding searches a path from function entry to target that does not execute
// any instruction satisfying through. It returns the block path (witness) or nil.
func (fi *FnInfo) PathAvoiding(target ssa.Instruction, through func(ssa.Instruction) bool) []int {
	return fi.PathAvoidingX(target, through, nil)
}

// PathAvoidingX additionally treats crossing an if-edge whose fact satisfies edgePred as
// "passing through" (paths may not cross such edges).
func (fi *FnInfo) PathAvoidingX(target ssa.Instruction, through func(ssa.Instruction) bool, edgePred func(Fact) bool) []int {
	blockedEdge := map[[2]int]bool{} // (block index, succ index)
	if edgePred != nil {
		for _, f := range fi.facts {
			if edgePred(f) {
				blockedEdge[[2]int{f.If.Block().Index, f.Succ}] = true
			}
		}
	}
	if through == nil {
		through = func(ssa.Instruction) bool { return false }
	}
	blockedAt := func(b *ssa.BasicBlock) int {
		for i, in := range b.Instrs {
			if through(in) {
				return i
			}
		}
		return -1
	}
	idxOf := func(b *ssa.BasicBlock, t ssa.Instruction) int {
		for i, in := range b.Instrs {
			if in == t {
				return i
			}
		}
		return -1
	}
	if len(fi.Fn.Blocks) == 0 {
		return nil
	}
	type node struct {
		b    *ssa.BasicBlock
		prev *node
	}
	seen := map[int]bool{0: true}
	queue := []*node{{b: fi.Fn.Blocks[0]}}
	for len(queue) > 0 {
		n := queue[0]
		queue = queue[1:]
		bl := blockedAt(n.b)
		if n.b == target.Block() {
			ti := idxOf(n.b, target)
			if bl < 0 || ti < bl {
				var path []int
				for x := n; x != nil; x = x.prev {
					path = append([]int{x.b.Index}, path...)
				}
				return path
			}
		}
		if bl >= 0 {
			continue
		}
		for si, s := range n.b.Succs {
			if blockedEdge[[2]int{n.b.Index, si}] {
				continue
			}
			if !seen[s.Index] {
				seen[s.Index] = true
				queue = append(queue, &node{b: s, prev: n})
			}
		}
	}
	return nil
}

// DescribePath renders a block path with the source lines of the branching conditions.
func (fi *FnInfo) DescribePath(path []int) string {
	var parts []string
	for _, bi := range path {
		b := fi.Fn.Blocks[bi]
		pos := token.NoPos
		for _, in := range b.Instrs {
			if in.Pos().IsValid() {
				pos = in.Pos()
				break
			}
		}
		if pos.IsValid() {
			parts = append(parts, fmt.Sprintf("b%d@%s", bi, fi.w.Pos(pos)))
		} else {
			parts = append(parts, fmt.Sprintf("b%d", bi))
		}
	}
	return strings.Join(parts, " -> ")
}

// InstrPos returns a usable position for an instruction (falls back to neighbours).
func (fi *FnInfo) InstrPos(in ssa.Instruction) string {
	if in.Pos().IsValid() {
		return fi.w.Pos(in.Pos())
	}
	b := in.Block()
	for _, x := range b.Instrs {
		if x.Pos().IsValid() {
			return fi.w.Pos(x.Pos())
		}
	}
	return fi.w.Pos(fi.Fn.Pos())
}

// ValueOfCall returns the ssa.Value of a call instruction (nil for defer/go).
func ValueOfCall(ci ssa.CallInstruction) ssa.Value {
	if c, ok := ci.(*ssa.Call); ok {
		return c
	}
	return nil
}

// ErrTermOfCall returns the term denoting the error result of call c: the call itself
// when it returns a single error, or the extract of the error index.
func (fi *FnInfo) ErrTermOfCall(c *ssa.Call) string {
	res := c.Call.Signature().Results()
	base := fi.T.Of(c)
	if res.Len() == 1 {
		return base.String()
	}
	for i := res.Len() - 1; i >= 0; i-- {
		if types.Identical(res.At(i).Type(), errorType) {
			return (&Term{Op: "extract", Name: fmt.Sprint(i), Args: []*Term{base}}).String()
		}
	}
	return base.String()
}

// ErrNilDominates reports whether the "error of call c is nil" edge dominates block b.
func (fi *FnInfo) ErrNilDominates(c *ssa.Call, b *ssa.BasicBlock) bool {
	return fi.HasAtom(b, atomEQ(fi.ErrTermOfCall(c), "nil"))
}
