package main

import (
	"fmt"
	"strings"

	"golang.org/x/tools/go/ssa"
)

func init() {
	register("C01", propMeta{
		Explanation: "Decides the structural necessary conditions of inbound-packet authenticity on every path of the current source: in Keeper.RecvPacket every state write, event, success return and the ErrUnauthorized return is edge-dominated by the nil-error edge of ClientState.VerifyPacketCommitment and of ValidatePacket; the verifier's arguments are bound to the packet's own source/dest/sequence, to CommitPacket(packet), to the submitted proof and height, and to the client and client store of the same chain, which is the packet's source or relay chain; CommitPacket hashes exactly packet.GetData(); the proven path has one hole per (source,dest,sequence); in msgServer.RecvPacket the application callback and acknowledgement writes are dominated by the keeper's success (or the ErrUnauthorized case) and receive the same msg.Packet; each of the three light clients reaches success only through height bound, consensus state at the proof height, delay check and a membership call over that state's root with key derived from (source,dest,sequence) and the claimed value. Also (shared with C08): MerklePath.GetKey returns the key-path element unchanged for every string over the store-key alphabet (evaluated on the returned term with the analyser's copy of net/url), every ics23.VerifyMembership call - in the chained verifier or a helper of it - has a fail-only false edge, and the BSC/ETH Merkle-Patricia verifier binds contract address, account RLP, storage root, raw slot and value. NOT decided: cryptographic soundness of ICS-23/IAVL/MPT, SDK rollback of rejected messages, multi-chain histories.",
		Assumptions: []string{"ICS-23, go-ethereum trie and cometbft light verification are correct", "a message handler that returns an error has all its writes discarded by the SDK"},
		Trusted:     commonTrusted,
	}, ruleC01)
}

// packetGetters returns the canonical terms of the packet accessors for packet term p
// (interface-typed parameter).
type pktTerms struct{ src, dst, seq, relay, port, data string }

func ifacePkt(p *Term) pktTerms {
	return pktTerms{
		src:   Invoke(p, "GetSourceChain").String(),
		dst:   Invoke(p, "GetDestChain").String(),
		seq:   Invoke(p, "GetSequence").String(),
		relay: Invoke(p, "GetRelayChain").String(),
		port:  Invoke(p, "GetPort").String(),
		data:  Invoke(p, "GetData").String(),
	}
}

// structPkt computes accessor terms for a concrete types.Packet value term by inlining
// the repository's own getters (so a renamed field changes both sides alike).
func (k *K) structPkt(p *Term) pktTerms {
	g := func(name string) string {
		return k.w.TermOfCall(k.w.Method(pPacketTypes, "Packet", name), p).String()
	}
	return pktTerms{src: g("GetSourceChain"), dst: g("GetDestChain"), seq: g("GetSequence"), relay: g("GetRelayChain"), port: g("GetPort"), data: g("GetData")}
}

// verifyBinding checks the arguments of a ClientState.Verify* call made by the packet keeper.
// want: expected terms of (sourceChain, destChain, sequence[, value]).
func (k *K) verifyBinding(prefix string, fi *FnInfo, call *ssa.Call, pk pktTerms, proof, height *Term, wantValue string, fromAllowed map[string]bool) {
	fn := fnShort(fi)
	site := fi.InstrPos(call)
	args := call.Call.Args // invoke: ctx, store, cdc, height, proof, src, dst, seq[, value]
	if len(args) < 8 {
		k.r.Undecided(prefix+".bind/arity", "BIND", fn, site, fmt.Sprintf("unexpected verifier arity %d", len(args)))
		return
	}
	t := termsOf(fi, args)
	chk := func(name, got, want string) {
		k.r.Check(got == want, prefix+".bind/"+name, "BIND", fn, site,
			name+" = "+got, fmt.Sprintf("verifier argument %s is bound to %s, expected %s", name, got, want))
	}
	chk("height", t[3], height.String())
	chk("proof", t[4], proof.String())
	chk("sourceChain", t[5], pk.src)
	chk("destChain", t[6], pk.dst)
	chk("sequence", t[7], pk.seq)
	if wantValue != "" {
		if len(args) < 9 {
			k.r.Violate(prefix+".bind/value", "BIND", fn, site, "verifier takes no value argument")
		} else {
			chk("value", t[8], wantValue)
		}
	}
	// client and store must belong to the same chain X, X in {source, relay} (or {dest, relay} for acks)
	recv := fi.T.Of(call.Call.Value)
	store := fi.T.Of(args[1])
	var xClient, xStore *Term
	if recv.Op == "extract" && recv.Args[0].Op == "invoke" && recv.Args[0].Name == "GetClientState" && len(recv.Args[0].Args) == 3 {
		xClient = recv.Args[0].Args[2]
	}
	if store.Op == "invoke" && store.Name == "ClientStore" && len(store.Args) == 3 {
		xStore = store.Args[2]
	}
	if xClient == nil || xStore == nil {
		k.r.Undecided(prefix+".bind/client-store", "BIND", fn, site, fmt.Sprintf("cannot identify the chain of the verifying client (%s) or of its store (%s)", recv, store))
		return
	}
	k.r.Check(xClient.String() == xStore.String(), prefix+".bind/client-store", "BIND", fn, site,
		"client and client store are looked up for the same chain "+xClient.String(),
		fmt.Sprintf("client is looked up for %s but its store for %s", xClient, xStore))
	// the set of possible proving chains
	alts := []*Term{xClient}
	if xClient.Op == "phi" {
		alts = xClient.Args
	}
	ok := true
	var got []string
	for _, a := range alts {
		got = append(got, a.String())
		if !fromAllowed[a.String()] {
			ok = false
		}
	}
	var allowed []string
	for a := range fromAllowed {
		allowed = append(allowed, a)
	}
	k.r.Check(ok, prefix+".bind/from", "BIND", fn, site,
		"proving chain ∈ {"+strings.Join(got, ", ")+"}",
		fmt.Sprintf("proving chain may be %v, allowed only %v", got, allowed))
}

// requireDominated adds one obligation per site: the nil-error edge of one of the given
// calls must dominate the site.
func (k *K) requireErrNilDominates(id string, fi *FnInfo, calls []*ssa.Call, sites []Site, what string) {
	fn := fnShort(fi)
	for _, s := range sites {
		ok := false
		for _, c := range calls {
			if s.Instr == ssa.Instruction(c) {
				ok = true // the call itself
				break
			}
			if fi.ErrNilDominates(c, s.Instr.Block()) {
				ok = true
				break
			}
		}
		k.r.Check(ok, id+"/"+s.What, "GUARD-DOM", fn, fi.InstrPos(s.Instr),
			s.What+" is dominated by the success edge of "+what,
			s.What+" is reachable without passing the success edge of "+what)
	}
}

func callsNamed(fi *FnInfo, name string) []*ssa.Call {
	var out []*ssa.Call
	for _, ci := range fi.Calls(func(c *ssa.CallCommon) bool { return methodCall(c, name) }) {
		if c, ok := ci.(*ssa.Call); ok {
			out = append(out, c)
		}
	}
	return out
}

// returnSites turns success/maybe returns and returns of a given sentinel into sites.
func returnSites(fi *FnInfo, sentinel string) []Site {
	var out []Site
	ei := fi.errIndex()
	for _, r := range fi.Returns() {
		switch r.Kind {
		case RetSuccess:
			out = append(out, Site{r.Instr, "return-nil"})
		case RetMaybe:
			out = append(out, Site{r.Instr, "return-maybe-nil"})
		case RetFail:
			if sentinel != "" && ei >= 0 && fi.T.Of(RetVal(r.Instr, ei)).String() == sentinel {
				out = append(out, Site{r.Instr, "return-" + sentinel[strings.LastIndex(sentinel, ".")+1:]})
			}
		}
	}
	return out
}

const errUnauthorized = "github.com/cosmos/cosmos-sdk/types/errors.ErrUnauthorized"

func ruleC01(w *World, r *Report) {
	k := newK(w, r)
	fi := k.method(pPacketKeeper, "Keeper", "RecvPacket")
	if fi == nil {
		return
	}
	pkt := paramByType(fi.Fn, "exported.PacketI")
	proof := paramByType(fi.Fn, "[]byte")
	height := paramByType(fi.Fn, "exported.Height")
	if r.BrokenIf(pkt == nil || proof == nil || height == nil, "RecvPacket: packet/proof/height parameters not identified") {
		return
	}
	pk := ifacePkt(pkt)
	fn := fnShort(fi)

	verifies := callsNamed(fi, "VerifyPacketCommitment")
	if len(verifies) == 0 {
		r.Violate("C01.dom.verify/call", "MUST-PASS", fn, w.Pos(fi.Fn.Pos()), "RecvPacket does not call ClientState.VerifyPacketCommitment at all")
	} else {
		r.OK("C01.dom.verify/call", "MUST-PASS", fn, fi.InstrPos(verifies[0]), "RecvPacket calls ClientState.VerifyPacketCommitment")
	}
	sites := append(k.EffectSites(fi), returnSites(fi, errUnauthorized)...)
	k.requireErrNilDominates("C01.dom.verify", fi, verifies, sites, "ClientState.VerifyPacketCommitment")

	// ValidatePacket(packet) dominates everything as well
	var validates []*ssa.Call
	for _, c := range callsNamed(fi, "ValidatePacket") {
		a := CallArgs(&c.Call)
		if len(a) >= 2 && fi.T.Of(a[1]).String() == pkt.String() {
			validates = append(validates, c)
		}
	}
	k.requireErrNilDominates("C01.dom.validate", fi, validates, sites, "ValidatePacket(packet)")

	// argument binding
	commit := w.TermOfCall(w.Func(pPacketTypes, "CommitPacket"), pkt).String()
	for _, v := range verifies {
		k.verifyBinding("C01", fi, v, pk, proof, height, commit, map[string]bool{pk.src: true, pk.relay: true})
	}

	k.commitPacketRule("C01")
	k.commitPathRule("C01.key.cover", "PacketCommitmentPath")
	k.msgRecvRule("C01")
	for _, ct := range clientTypes {
		k.clientVerifyRule("C01.client", ct, "VerifyPacketCommitment")
	}
	k.merkleRule("C01.merkle")
	// BSC/ETH: the membership call of VerifyPacketCommitment is the Merkle-Patricia verifier
	for _, ct := range []string{pBSC, pETH} {
		k.mptRule("C01.mpt", ct)
	}
	r.MinInstances("C01.", 40)
}

// commitPacketRule: CommitPacket(packet) hashes exactly packet.GetData().
func (k *K) commitPacketRule(prefix string) {
	fi := k.function(pPacketTypes, "CommitPacket")
	if fi == nil {
		return
	}
	fn := fnShort(fi)
	rets := fi.Returns()
	want := "crypto/sha256.Sum256(" + Invoke(P(0), "GetData").String() + ")"
	for _, rt := range rets {
		got := fi.T.Of(RetVal(rt.Instr, 0)).String()
		// accepted: a collision-resistant hash whose input contains the whole data
		t := fi.T.Of(RetVal(rt.Instr, 0))
		full := strings.HasPrefix(got, "crypto/sha256.Sum256(") && t.Contains(Invoke(P(0), "GetData").String()) && !hasSliceOf(t, Invoke(P(0), "GetData").String())
		k.r.Check(full, prefix+".commit.data/CommitPacket", "BIND", fn, fi.InstrPos(rt.Instr),
			"commitment = "+got, fmt.Sprintf("commitment is %s; expected a sha256 over the complete packet data (%s)", got, want))
	}
	fa := k.function(pPacketTypes, "CommitAcknowledgement")
	if fa != nil {
		for _, rt := range fa.Returns() {
			t := fa.T.Of(RetVal(rt.Instr, 0))
			got := t.String()
			full := strings.HasPrefix(got, "crypto/sha256.Sum256(") && t.Contains("$0") && !hasSliceOf(t, "$0")
			k.r.Check(full, prefix+".commit.data/CommitAcknowledgement", "BIND", fnShort(fa), fa.InstrPos(rt.Instr),
				"ack commitment = "+got, "ack commitment is "+got+"; expected a sha256 over the complete acknowledgement bytes")
		}
	}
}

func hasSliceOf(t *Term, sub string) bool {
	found := false
	t.Walk(func(x *Term) {
		if x.Op == "slice" && x.Args[0].Contains(sub) {
			found = true
		}
	})
	return found
}

// commitPathRule: a host.*Path(source,dest[,sequence]) has one hole per parameter, in
// order, separated by literals.
func (k *K) commitPathRule(id, name string) {
	fi := k.function(pHost, name)
	if fi == nil {
		return
	}
	args := make([]*Term, len(fi.Fn.Params))
	for i := range args {
		args[i] = P(i)
	}
	sh := k.w.ShapeOf(k.w.TermOfCall(fi.Fn, args...))
	holes := sh.HoleTerms()
	ok := len(holes) == len(args)
	for i := range holes {
		if !ok || holes[i] != args[i].String() {
			ok = false
		}
	}
	// adjacent holes must be separated by a literal
	for i := 1; i < len(sh); i++ {
		if sh[i].Hole != "" && sh[i-1].Hole != "" {
			ok = false
		}
	}
	k.r.Check(ok, id+"/"+name, "KEY-SHAPE", fnShort(fi), k.w.Pos(fi.Fn.Pos()),
		"path shape "+sh.String(), "path shape "+sh.String()+" does not bind each of its parameters exactly once, in order, separated by literals")
}

// msgRecvRule: msgServer.RecvPacket.
func (k *K) msgRecvRule(prefix string) {
	fi := k.method(pCoreKeeper, "msgServer", "RecvPacket")
	if fi == nil {
		return
	}
	fn := fnShort(fi)
	msg := paramByType(fi.Fn, "MsgRecvPacket")
	if k.r.BrokenIf(msg == nil, "msgServer.RecvPacket: msg parameter not identified") {
		return
	}
	mpkt := FieldT(msg, "Packet").String()
	recvs := callsNamed(fi, "RecvPacket")
	if len(recvs) == 0 {
		k.r.Violate(prefix+".msg.dom/call", "MUST-PASS", fn, k.w.Pos(fi.Fn.Pos()), "handler does not call PacketKeeper.RecvPacket")
		return
	}
	for _, c := range recvs {
		a := append([]string{"recv"}, termsOf(fi, CallArgs(&c.Call))...)
		a = a[1:]
		if len(a) >= 4 {
			k.r.Check(a[1] == mpkt, prefix+".msg.bind/packet", "BIND", fn, fi.InstrPos(c), "keeper receives msg.Packet", "keeper receives "+a[1]+", expected "+mpkt)
			k.r.Check(a[2] == FieldT(msg, "ProofCommitment").String(), prefix+".msg.bind/proof", "BIND", fn, fi.InstrPos(c), "proof = msg.ProofCommitment", "proof argument is "+a[2])
			k.r.Check(a[3] == FieldT(msg, "ProofHeight").String(), prefix+".msg.bind/height", "BIND", fn, fi.InstrPos(c), "height = msg.ProofHeight", "height argument is "+a[3])
		}
	}
	errT := fi.ErrTermOfCall(recvs[0])
	okAtom := atomEQ(errT, "nil")
	unauthAtom := atomEQ(errT, errUnauthorized)
	var cbSites, ackSites []ssa.Instruction
	for _, ci := range fi.Calls(func(c *ssa.CallCommon) bool { return methodCall(c, "OnRecvPacket") }) {
		cbSites = append(cbSites, ci)
	}
	for _, ci := range fi.Calls(func(c *ssa.CallCommon) bool { return methodCall(c, "WriteAcknowledgement") }) {
		ackSites = append(ackSites, ci)
	}
	if len(cbSites) == 0 {
		k.r.Violate(prefix+".msg.dom/callback", "MUST-PASS", fn, k.w.Pos(fi.Fn.Pos()), "no OnRecvPacket callback invocation found")
	}
	for _, s := range cbSites {
		k.r.Check(fi.HasAtom(s.Block(), okAtom), prefix+".msg.dom/OnRecvPacket", "GUARD-DOM", fn, fi.InstrPos(s),
			"application callback dominated by PacketKeeper.RecvPacket == nil",
			"application callback reachable without PacketKeeper.RecvPacket having succeeded; facts: "+strings.Join(fi.AtomsAt(s.Block()), "; "))
		a := termsOf(fi, CallArgs(s.(ssa.CallInstruction).Common()))
		if len(a) >= 2 {
			k.r.Check(a[1] == mpkt, prefix+".msg.bind/callback-packet", "BIND", fn, fi.InstrPos(s), "callback receives msg.Packet", "callback receives "+a[1])
		}
	}
	for _, s := range ackSites {
		b := s.Block()
		ok := fi.HasAtom(b, okAtom) || fi.HasAtom(b, unauthAtom)
		k.r.Check(ok, prefix+".msg.dom/WriteAcknowledgement", "GUARD-DOM", fn, fi.InstrPos(s),
			"acknowledgement write dominated by keeper success or by the ErrUnauthorized case",
			"acknowledgement write reachable on a path where RecvPacket neither succeeded nor returned ErrUnauthorized; facts: "+strings.Join(fi.AtomsAt(b), "; "))
		a := termsOf(fi, CallArgs(s.(ssa.CallInstruction).Common()))
		if len(a) >= 2 {
			k.r.Check(a[1] == mpkt, prefix+".msg.bind/ack-packet", "BIND", fn, fi.InstrPos(s), "ack is written for msg.Packet", "ack is written for "+a[1])
		}
	}
	// success returns: keeper succeeded or the unauthorized case was handled
	for _, s := range returnSites(fi, "") {
		b := s.Instr.Block()
		ok := fi.HasAtom(b, okAtom) || fi.HasAtom(b, unauthAtom)
		k.r.Check(ok, prefix+".msg.dom/"+s.What, "GUARD-DOM", fn, fi.InstrPos(s.Instr),
			"handler success dominated by keeper success or the ErrUnauthorized case",
			"handler can return success although PacketKeeper.RecvPacket failed with another error")
	}
}
