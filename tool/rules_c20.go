package main

import (
	"fmt"
	"go/token"
	"go/types"
	"sort"
	"strings"

	"golang.org/x/tools/go/ssa"
)

func init() {
	register("C20", propMeta{
		Explanation: "Decides by exhaustive effect reachability over the repository's call graph (class-hierarchy resolution of interface calls, so every light client and application callback is included): from the consensus entry set (every Msg handler, application callbacks, InitGenesis, governance proposal handlers and, through interface calls, the light-client methods) no repository function is reachable that reads the wall clock, a random source, the file system, the environment, the network, the number of CPUs/goroutines, starts a goroutine or blocks in a multi-way select, except for sites in a reasoned table (log-only timers and result-independent prefetching inside the vendored ethash code, and its disk/full-DAG branches which are unreachable because header verification constructs ethash with an empty Config and fulldag=false - that configuration is itself checked); every range over a map in reachable code is order-insensitive (only inserts into maps, or appends to a slice that is sorted before use) or is a reasoned table entry; no reachable code writes a package-level variable or a part of one, inserts into a package-level map, stores into a package-level sync.Map / sync/atomic value, mutates a package-level math/big value in place, or writes memory hanging off a Keeper / msgServer / AppModule object (state that would survive a failed or repeated execution in the same process). NOT decided: determinism of third-party code (SDK, cometbft, go-ethereum are not descended into), byte equality of results.",
		Assumptions: []string{"dependencies outside the repository are deterministic", "class-hierarchy call graph over-approximates dynamic dispatch"},
		Trusted:     commonTrusted,
	}, ruleC20)
}

// consensusEntries returns the functions at which consensus execution enters the repository.
func (k *K) consensusEntries() []*ssa.Function {
	var out []*ssa.Function
	add := func(fn *ssa.Function) {
		if fn != nil && fn.Blocks != nil {
			out = append(out, fn)
		}
	}
	for _, fn := range k.w.Funcs {
		if !k.w.IsProd(fn) || fn.Parent() != nil {
			continue
		}
		n := funcName(fn)
		switch {
		case strings.HasPrefix(n, "(core/keeper.msgServer)."):
			add(fn)
		case n == "(apps/nft_transfer/keeper.Keeper).NftTransfer", n == "(apps/mt_transfer/keeper.Keeper).MtTransfer":
			add(fn)
		case strings.HasSuffix(n, "AppModule).OnRecvPacket"), strings.HasSuffix(n, "AppModule).OnAcknowledgementPacket"):
			add(fn)
		case strings.HasSuffix(n, ".InitGenesis"), strings.HasSuffix(n, "AppModule).BeginBlock"), strings.HasSuffix(n, "AppModule).EndBlock"):
			add(fn)
		case strings.Contains(n, "ProposalHandler"):
			add(fn)
		}
	}
	sort.Slice(out, func(i, j int) bool { return out[i].String() < out[j].String() })
	return out
}

var forbiddenFuncs = map[string]string{
	"time.Now": "wall clock", "time.Since": "wall clock", "time.Until": "wall clock", "time.After": "timer", "time.Tick": "timer",
	"time.NewTimer": "timer", "time.NewTicker": "timer", "time.Sleep": "scheduler", "time.AfterFunc": "timer",
	"runtime.NumCPU": "host CPU count", "runtime.GOMAXPROCS": "scheduler configuration", "runtime.NumGoroutine": "scheduler state",
	"runtime.SetFinalizer": "garbage-collector timing",
}

var forbiddenPkgs = map[string]string{
	"os": "file system / environment", "io/ioutil": "file system", "os/exec": "processes", "net": "network", "net/http": "network",
	"math/rand": "process-global random source", "crypto/rand": "random source", "syscall": "operating system", "os/signal": "signals",
	"github.com/edsrzf/mmap-go": "memory-mapped files", "path/filepath": "",
}

// c20Allow is the reasoned per-function table of forbidden constructs that are accepted
// in reachable code. Keys are function names (closures of a function share its entry);
// every entry names ONE function of the vendored ethash implementation and says why the
// construct cannot influence a state transition. The two configuration facts the
// reasons rely on (empty Config, fulldag=false) are checked by C20.ethash.config.
var c20Allow = map[string]string{
	"light-clients/09-eth/types.generateCache":                   "wall-clock reads, the progress goroutine, its select and timer only produce log lines (elapsed time, percentage); the generated cache is a pure function of (epoch, seed)",
	"light-clients/09-eth/types.generateDataset":                 "full-DAG generation (NumCPU worker goroutines, timers): only reached through Ethash.dataset, which VerifySeal calls only with fulldag=true; header verification passes fulldag=false",
	"(light-clients/09-eth/types.Ethash).dataset":                "full-DAG path, only with fulldag=true (see generateDataset)",
	"(light-clients/09-eth/types.dataset).generate":              "full-DAG path, only with fulldag=true (see generateDataset)",
	"(light-clients/09-eth/types.Ethash).cache":                  "go future.generate prefetches the next epoch's verification cache; cache contents are a pure function of the epoch, so the prefetch changes timing only",
	"(light-clients/09-eth/types.cache).generate":                "disk/mmap branch is taken only when dir != \"\"; header verification constructs ethash with an empty Config, so the cache is generated in memory",
	"light-clients/09-eth/types.memoryMap":                       "only called from the disk branches of cache.generate/dataset.generate (dir != \"\"), unreachable with the empty Config",
	"light-clients/09-eth/types.memoryMapFile":                   "only called from memoryMap/memoryMapAndGenerate (disk branch, see memoryMap)",
	"light-clients/09-eth/types.memoryMapAndGenerate":            "disk branch only (see memoryMap); the rand.Int there names a temporary file",
	"light-clients/09-eth/types.startRemoteSealer":               "New() starts the idle remote-mining service goroutine; verification never submits work to it and Close() stops it; it shares no data with VerifySeal",
	"(light-clients/09-eth/types.remoteSealer).loop":             "body of the idle remote-mining service (see startRemoteSealer); handles only mining requests, which consensus code never sends",
	"(light-clients/09-eth/types.remoteSealer).submitWork":       "remote-mining service (see startRemoteSealer)",
	"(light-clients/09-eth/types.remoteSealer).notifyWork":       "remote-mining service (see startRemoteSealer); notify list is nil in header verification",
	"(light-clients/09-eth/types.remoteSealer).sendNotification": "remote-mining service (see startRemoteSealer); notify list is nil in header verification",
	"(light-clients/09-eth/types.remoteSealer).makeWork":         "remote-mining service (see startRemoteSealer)",
	"(light-clients/09-eth/types.Ethash).Close":                  "select used to hand the exit request to the remote-mining service goroutine; no state transition depends on it",
}

func c20Tabled(name string) (string, bool) {
	if why, ok := c20Allow[name]; ok {
		return why, true
	}
	if i := strings.Index(name, "$"); i > 0 {
		if why, ok := c20Allow[name[:i]]; ok {
			return why, true
		}
	}
	return "", false
}

func ruleC20(w *World, r *Report) {
	k := newK(w, r)
	entries := k.consensusEntries()
	if r.BrokenIf(len(entries) < 15, "only %d consensus entry points found", len(entries)) {
		return
	}
	reach := map[*ssa.Function]bool{}
	for _, e := range entries {
		for _, f := range k.cg.Reachable(e) {
			if w.IsProd(f) {
				reach[f] = true
			}
		}
	}
	var fns []*ssa.Function
	for f := range reach {
		fns = append(fns, f)
	}
	sort.Slice(fns, func(i, j int) bool { return fns[i].String() < fns[j].String() })
	r.Stats["entry_points"] = len(entries)
	r.Stats["reachable_prod_functions"] = len(fns)

	nFinds := 0
	for _, fn := range fns {
		name := funcName(fn)
		if fn.Parent() != nil {
			name = fn.String()[strings.LastIndex(fn.String(), "/")+1:]
			name = funcName(fn.Parent()) + strings.TrimPrefix(fn.Name(), fn.Parent().Name())
		}
		report := func(in ssa.Instruction, what, kind string) {
			nFinds++
			if why, ok := c20Tabled(name); ok {
				r.OK("C20.forbid/"+name+":"+what, "FORBIDDEN-REACH", name, w.Pos(in.Pos()), "tabled ("+kind+"): "+why)
				return
			}
			r.Violate("C20.forbid/"+name+":"+what, "FORBIDDEN-REACH", name, w.Pos(in.Pos()),
				"reachable from a consensus entry point and uses "+what+" ("+kind+"): the result of a state transition may depend on the process or host")
		}
		for _, b := range fn.Blocks {
			for _, in := range b.Instrs {
				switch x := in.(type) {
				case *ssa.Go:
					report(in, "go", "goroutine")
					_ = x
				case *ssa.Select:
					if len(x.States) > 1 || !x.Blocking {
						report(in, "select", "scheduler-dependent choice")
					}
				}
				ci, ok := in.(ssa.CallInstruction)
				if !ok {
					continue
				}
				callee := ci.Common().StaticCallee()
				if callee == nil {
					continue
				}
				full := funcName(callee)
				if kind, bad := forbiddenFuncs[full]; bad {
					report(in, full, kind)
					continue
				}
				pkg := ""
				if callee.Pkg != nil {
					pkg = callee.Pkg.Pkg.Path()
				} else if callee.Object() != nil && callee.Object().Pkg() != nil {
					pkg = callee.Object().Pkg().Path()
				}
				if kind, bad := forbiddenPkgs[pkg]; bad && kind != "" {
					// methods on values from these packages (e.g. (*rand.Rand).Int63 on a seeded source, (*os.File).Close) count as well
					report(in, full, kind)
				}
			}
		}
	}
	if nFinds == 0 {
		r.OK("C20.forbid/none", "FORBIDDEN-REACH", "reachable set", "-", "no forbidden construct in reachable consensus code")
	}

	// the ethash configuration that makes the tabled disk/full-DAG branches unreachable
	if fi := k.function(pETH, "verifyCascadingFields"); fi != nil {
		okCfg, okDag := false, false
		for _, b := range fi.Fn.Blocks {
			for _, in := range b.Instrs {
				c, ok := in.(*ssa.Call)
				if !ok {
					continue
				}
				if f := c.Call.StaticCallee(); f != nil && f.Name() == "New" && len(c.Call.Args) >= 1 {
					t := fi.T.Of(c.Call.Args[0]).String()
					okCfg = !strings.Contains(t, "CacheDir:") && !strings.Contains(t, "DatasetDir:") && !strings.Contains(t, "$")
				}
				if methodCall(&c.Call, "VerifySeal") {
					a := CallArgs(&c.Call)
					if len(a) >= 2 && fi.T.Of(a[1]).String() == "const(false)" {
						okDag = true
					}
				}
			}
		}
		r.Check(okCfg, "C20.ethash.config/memory-only", "BIND", fnShort(fi), w.Pos(fi.Fn.Pos()), "ethash is constructed without cache/dataset directories", "header verification configures ethash with an on-disk cache or dataset directory: acceptance may depend on the node's file system")
		r.Check(okDag, "C20.ethash.config/no-full-dag", "BIND", fnShort(fi), w.Pos(fi.Fn.Pos()), "seal verification uses the light cache (fulldag=false)", "seal verification may use the full DAG (multi-threaded generation sized by runtime.NumCPU, disk backed)")
	}

	// ---- map ranges
	k.mapRangeRule("C20.maprange", fns)
	// ---- process-global state
	k.globalWriteRule("C20.global", fns)
	k.keeperMemRule("C20.global.keeper", fns)
	r.MinInstances("C20.", 8)
}

// reasoned table of order-insensitive map ranges: function -> reason
var mapRangeAllow = map[string]string{
	"(light-clients/09-eth/types.remoteSealer).loop": "bookkeeping of the idle remote-mining service (pending work / hashrate maps); not consensus state and never exercised by header verification",
	"light-clients/08-bsc/types.verifySeal":          "scan of snap.Recents for the recovered signer: every matching element inside the window leads to the same sentinel error and no state is written, so the outcome does not depend on which element is visited first",
}

func (k *K) mapRangeRule(id string, fns []*ssa.Function) {
	n := 0
	for _, fn := range fns {
		for _, b := range fn.Blocks {
			for _, in := range b.Instrs {
				rg, ok := in.(*ssa.Range)
				if !ok {
					continue
				}
				if _, isMap := rg.X.Type().Underlying().(*types.Map); !isMap {
					continue
				}
				n++
				name := funcName(fn)
				site := k.w.Pos(rg.Pos())
				if why, ok := mapRangeAllow[name]; ok {
					k.r.OK(id+"/"+name, "RANGE-MAP", name, site, "tabled: "+why)
					continue
				}
				verdict, detail := classifyMapRange(fn, rg)
				k.r.Check(verdict, id+"/"+name, "RANGE-MAP", name, site, detail, "iteration over a map in consensus code whose effect may depend on Go's randomised iteration order: "+detail)
			}
		}
	}
	k.r.Stats["map_ranges_in_reachable_code"] = n
	if n == 0 {
		k.r.OK(id+"/none", "RANGE-MAP", "reachable set", "-", "no range over a map in reachable consensus code")
	}
}

// classifyMapRange accepts: values derived from the iteration flow only into map
// updates, integer counters, or appends to a slice that is passed to a sort function in
// the same function.
func classifyMapRange(fn *ssa.Function, rg *ssa.Range) (bool, string) {
	// collect values derived from the iterator
	derived := map[ssa.Value]bool{}
	var work []ssa.Value
	if refs := rg.Referrers(); refs != nil {
		for _, r := range *refs {
			if nx, ok := r.(*ssa.Next); ok {
				derived[nx] = true
				work = append(work, nx)
			}
		}
	}
	appended := map[ssa.Value]bool{}
	var other []string
	for len(work) > 0 {
		v := work[len(work)-1]
		work = work[:len(work)-1]
		refs := v.Referrers()
		if refs == nil {
			continue
		}
		for _, r := range *refs {
			switch x := r.(type) {
			case *ssa.Extract, *ssa.Convert, *ssa.ChangeType, *ssa.MakeInterface, *ssa.Slice, *ssa.Field, *ssa.Phi, *ssa.UnOp, *ssa.FieldAddr, *ssa.IndexAddr, *ssa.Index:
				val := x.(ssa.Value)
				if ex, ok := x.(*ssa.Extract); ok && ex.Index == 0 {
					continue // the "ok" flag of Next
				}
				if !derived[val] {
					derived[val] = true
					work = append(work, val)
				}
			case *ssa.MapUpdate:
				// inserting into a map is order-insensitive
			case *ssa.If, *ssa.DebugRef:
			case *ssa.BinOp:
				if !derived[x] {
					derived[x] = true
					work = append(work, x)
				}
			case *ssa.Store:
				// storing an element into a freshly built variadic array for append is handled via the call
				if ia, ok := x.Addr.(*ssa.IndexAddr); ok {
					if !derived[ia.X] {
						derived[ia.X] = true
						work = append(work, ia.X)
					}
				} else {
					other = append(other, "stored to memory")
				}
			case *ssa.Call:
				if b, ok := x.Call.Value.(*ssa.Builtin); ok {
					switch b.Name() {
					case "append":
						appended[x] = true
						if !derived[x] {
							derived[x] = true
							work = append(work, x)
						}
						continue
					case "len", "cap", "delete":
						continue
					}
				}
				callee := x.Call.StaticCallee()
				if callee != nil {
					n := funcName(callee)
					if strings.HasPrefix(n, "sort.") || strings.HasPrefix(n, "slices.Sort") {
						continue
					}
				}
				other = append(other, "passed to "+calleeShort(&x.Call))
			case *ssa.Return:
				other = append(other, "returned")
			default:
				other = append(other, fmt.Sprintf("used by %T", r))
			}
		}
	}
	if len(appended) > 0 {
		// a sort over a derived slice must exist in the function
		sorted := false
		for _, b := range fn.Blocks {
			for _, in := range b.Instrs {
				c, ok := in.(*ssa.Call)
				if !ok {
					continue
				}
				callee := c.Call.StaticCallee()
				if callee == nil {
					continue
				}
				n := funcName(callee)
				if !(strings.HasPrefix(n, "sort.") || strings.HasPrefix(n, "slices.Sort")) {
					continue
				}
				for _, a := range c.Call.Args {
					if derived[a] {
						sorted = true
					}
					if mi, ok := a.(*ssa.MakeInterface); ok && derived[mi.X] {
						sorted = true
					}
					if ct, ok := a.(*ssa.ChangeType); ok && derived[ct.X] {
						sorted = true
					}
				}
			}
		}
		if !sorted {
			return false, "elements are appended to a slice in iteration order and the slice is not sorted afterwards"
		}
		// returning / using the sorted slice is fine
		var rest []string
		for _, o := range other {
			if o != "returned" {
				rest = append(rest, o)
			}
		}
		other = rest
	}
	if len(other) > 0 {
		return false, "iteration values are " + strings.Join(other, ", ")
	}
	if len(appended) > 0 {
		return true, "appends to a slice that is sorted before use"
	}
	return true, "only inserts into maps / counts"
}

var bigMutators = map[string]bool{"Set": true, "SetInt64": true, "SetUint64": true, "SetBytes": true, "SetString": true, "SetBit": true, "SetBits": true,
	"Add": true, "Sub": true, "Mul": true, "Div": true, "Mod": true, "Quo": true, "Rem": true, "DivMod": true, "QuoRem": true, "Exp": true, "Neg": true, "Abs": true,
	"Lsh": true, "Rsh": true, "And": true, "AndNot": true, "Or": true, "Xor": true, "Not": true, "Sqrt": true, "ModInverse": true, "ModSqrt": true, "GCD": true, "Rand": true, "Binomial": true, "MulRange": true}

var syncMutators = map[string]bool{"Store": true, "LoadOrStore": true, "Swap": true, "CompareAndSwap": true, "Delete": true, "LoadAndDelete": true, "CompareAndDelete": true, "Add": true, "And": true, "Or": true, "Clear": true}

// rootGlobal returns the package-level variable an address or container value is part of:
// the global itself, a field/element address inside it, or a value loaded from it
// (map or pointer held in the global).
func rootGlobal(v ssa.Value) *ssa.Global {
	for i := 0; i < 8 && v != nil; i++ {
		switch x := v.(type) {
		case *ssa.Global:
			return x
		case *ssa.FieldAddr:
			v = x.X
		case *ssa.IndexAddr:
			v = x.X
		case *ssa.UnOp:
			if x.Op != token.MUL {
				return nil
			}
			v = x.X
		case *ssa.ChangeType:
			v = x.X
		default:
			return nil
		}
	}
	return nil
}

func (k *K) globalWriteRule(id string, fns []*ssa.Function) {
	n := 0
	for _, fn := range fns {
		if fn.Name() == "init" {
			continue
		}
		fi := k.w.FI(fn)
		name := funcName(fn)
		for _, b := range fn.Blocks {
			for _, in := range b.Instrs {
				switch x := in.(type) {
				case *ssa.Store:
					if g := rootGlobal(x.Addr); g != nil {
						n++
						k.r.Violate(id+"/"+name+":"+g.Name(), "NO-GLOBAL-WRITE", name, k.w.Pos(in.Pos()), "consensus code assigns (a part of) the package-level variable "+g.Name()+": state outside the store survives failed and repeated executions in the same process")
					}
				case *ssa.MapUpdate:
					if g := rootGlobal(x.Map); g != nil {
						n++
						k.r.Violate(id+"/"+name+":"+g.Name()+"[]", "NO-GLOBAL-WRITE", name, k.w.Pos(in.Pos()), "consensus code inserts into the package-level map "+g.Name()+": a process-wide memo makes the result of a later execution depend on earlier executions in the same process")
					}
				case *ssa.Call:
					callee := x.Call.StaticCallee()
					// mutating methods of process-wide containers (sync.Map, sync/atomic values) on a package-level variable
					if callee != nil && callee.Signature.Recv() != nil && len(x.Call.Args) > 0 {
						rt := typeString(callee.Signature.Recv().Type())
						if (strings.HasPrefix(rt, "*sync.Map") || strings.HasPrefix(rt, "*sync/atomic.")) && syncMutators[callee.Name()] {
							if g := rootGlobal(x.Call.Args[0]); g != nil {
								n++
								k.r.Violate(id+"/"+name+":"+g.Name()+"."+callee.Name(), "NO-GLOBAL-WRITE", name, k.w.Pos(in.Pos()), "consensus code stores into the package-level "+strings.TrimPrefix(rt, "*")+" "+g.Name()+": a process-wide memo makes the result of a later execution depend on earlier executions in the same process")
							}
						}
					}
					if callee == nil || callee.Signature.Recv() == nil || !bigMutators[callee.Name()] {
						continue
					}
					if !strings.HasPrefix(typeString(callee.Signature.Recv().Type()), "*math/big.") {
						continue
					}
					recv := fi.T.Of(x.Call.Args[0])
					var gname string
					recv.Walk(func(t *Term) {
						if t.Op == "global" && gname == "" {
							gname = t.Name
						}
					})
					// a global only taints the receiver when the receiver IS (possibly) the global
					// object, not when it is the result of a call that merely reads it
					tainted := false
					var chk func(t *Term)
					chk = func(t *Term) {
						switch t.Op {
						case "global":
							tainted = true
						case "phi", "cell":
							for _, a := range t.Args {
								chk(a)
							}
						}
					}
					chk(recv)
					if tainted {
						n++
						k.r.Violate(id+"/"+name+":"+gname+"."+callee.Name(), "NO-GLOBAL-WRITE", name, k.w.Pos(in.Pos()),
							"in-place big-number operation "+callee.Name()+" whose receiver may be the package-level value "+gname+": the shared constant is overwritten and later executions in the same process compute with the corrupted value")
					}
				}
			}
		}
	}
	if n == 0 {
		k.r.OK(id+"/none", "NO-GLOBAL-WRITE", "reachable set", "-", "no write to package-level state in reachable consensus code")
	}
}
