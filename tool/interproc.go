package main

import (
	"go/types"
	"strings"

	"golang.org/x/tools/go/ssa"
)

// successRequires decides whether every path of fi that ends in a (possibly) successful
// return crosses an if-edge carrying an atom accepted by pred. Facts established inside
// static in-repository callees whose nil-error edge dominates the return (or whose
// result is returned directly) count as well; callee atoms are expressed in the
// caller's vocabulary through parameter substitution. depth bounds the descent.
// It returns the first offending return (nil when the requirement holds).
func (k *K) successRequires(fi *FnInfo, pred func(Fact) bool, depth int) (bool, *ssa.Return) {
	rets := fi.Returns()
	ei := fi.errIndex()
	for _, r := range rets {
		if r.Kind == RetFail {
			continue
		}
		if r.Kind == RetNoErr {
			// functions without error result: every return counts
		}
		if k.retSatisfied(fi, r, ei, pred, depth) {
			continue
		}
		return false, r.Instr
	}
	return true, nil
}

func (k *K) retSatisfied(fi *FnInfo, r Ret, ei int, pred func(Fact) bool, depth int) bool {
	b := r.Instr.Block()
	for _, f := range fi.FactsAt(b) {
		if pred(f) {
			return true
		}
	}
	if depth <= 0 {
		return false
	}
	// callees whose success is implied at this return
	for _, c := range k.impliedSuccessCalls(fi, r, ei) {
		callee := c.Call.StaticCallee()
		if callee == nil || callee.Blocks == nil || callee.Pkg == nil || !strings.HasPrefix(callee.Pkg.Pkg.Path(), modPath) {
			continue
		}
		env := map[*ssa.Parameter]*Term{}
		for i, p := range callee.Params {
			if i < len(c.Call.Args) {
				env[p] = fi.T.Of(c.Call.Args[i])
			}
		}
		sub := k.w.InfoEnv(callee, env)
		sub.initFacts()
		if ok, _ := k.successRequires(sub, pred, depth-1); ok {
			return true
		}
	}
	return false
}

// impliedSuccessCalls lists static calls of fi that must have returned a nil error when
// return r yields success: calls whose err==nil edge dominates r, and a call whose error
// result is returned by r itself.
func (k *K) impliedSuccessCalls(fi *FnInfo, r Ret, ei int) []*ssa.Call {
	var out []*ssa.Call
	b := r.Instr.Block()
	for _, blk := range fi.Fn.Blocks {
		for _, in := range blk.Instrs {
			c, ok := in.(*ssa.Call)
			if !ok || c.Call.IsInvoke() || c.Call.StaticCallee() == nil {
				continue
			}
			if fi.ErrNilDominates(c, b) {
				out = append(out, c)
			}
		}
	}
	if ei >= 0 && ei < len(r.Instr.Results) {
		v := RetVal(r.Instr, ei)
		if c, ok := v.(*ssa.Call); ok {
			out = append(out, c)
		}
		if ex, ok := v.(*ssa.Extract); ok {
			if c, ok := ex.Tuple.(*ssa.Call); ok {
				out = append(out, c)
			}
		}
	}
	return out
}

// initFacts (re)computes the if-edge facts of an env-substituted info.
func (fi *FnInfo) initFacts() {
	if fi.facts != nil {
		return
	}
	for _, b := range fi.Fn.Blocks {
		if len(b.Instrs) == 0 {
			continue
		}
		iff, ok := b.Instrs[len(b.Instrs)-1].(*ssa.If)
		if !ok {
			continue
		}
		for s := 0; s < 2; s++ {
			for _, f := range fi.atoms(iff.Cond, s == 0) {
				f.If, f.Succ, f.Cond, f.Pol = iff, s, fi.T.Of(iff.Cond), s == 0
				fi.facts = append(fi.facts, f)
			}
		}
	}
}

// successPassesCall: every (possibly) successful return of fi is dominated by the
// nil-error edge of one of calls, or returns that call's error directly.
func (k *K) successPassesCall(fi *FnInfo, calls []*ssa.Call) (bool, *ssa.Return) {
	ei := fi.errIndex()
	for _, r := range fi.Returns() {
		if r.Kind == RetFail {
			continue
		}
		ok := false
		for _, c := range calls {
			if fi.ErrNilDominates(c, r.Instr.Block()) {
				ok = true
				break
			}
			if ei >= 0 && ei < len(r.Instr.Results) && RetVal(r.Instr, ei) == ssa.Value(c) {
				ok = true
				break
			}
		}
		if !ok {
			return false, r.Instr
		}
	}
	return true, nil
}

// reachingStore finds, for a load of a multi-store cell, the store that certainly
// reaches it: the last store before the load in its own block, or in the chain of unique
// predecessors above it. It returns nil when the cell has at most one store (handled by
// allocTerm) or when no unique reaching store exists.
func reachingStore(load *ssa.UnOp, al *ssa.Alloc) *ssa.Store {
	n := 0
	if refs := al.Referrers(); refs != nil {
		for _, r := range *refs {
			if st, ok := r.(*ssa.Store); ok && st.Addr == ssa.Value(al) {
				n++
			}
		}
	}
	if n < 2 {
		return nil
	}
	b := load.Block()
	var last *ssa.Store
	for _, in := range b.Instrs {
		if in == ssa.Instruction(load) {
			break
		}
		if st, ok := in.(*ssa.Store); ok && st.Addr == ssa.Value(al) {
			last = st
		}
	}
	if last != nil {
		return last
	}
	for steps := 0; steps < 16 && len(b.Preds) == 1; steps++ {
		b = b.Preds[0]
		for i := len(b.Instrs) - 1; i >= 0; i-- {
			if st, ok := b.Instrs[i].(*ssa.Store); ok && st.Addr == ssa.Value(al) {
				return st
			}
			// a call that receives the cell's address (or a closure over it) may write it
		}
	}
	return nil
}

// edgeHasAtom reports whether the CFG edge from->to is an if-edge carrying atom.
func edgeHasAtom(fi *FnInfo, from, to *ssa.BasicBlock, atom string) bool {
	for _, f := range fi.facts {
		if f.If.Block() == from && from.Succs[f.Succ] == to && f.Atom == atom {
			return true
		}
	}
	return false
}

// tryInlineResult expands result #idx of a call to an unexported in-repository helper
// returning several values ("(x, err)") when every return that yields a non-zero x
// yields the same expression of the helper's parameters.
func (tm *Termer) tryInlineResult(c *ssa.Call, idx int) *Term {
	if c.Call.IsInvoke() {
		return nil
	}
	fn := c.Call.StaticCallee()
	if fn == nil || fn.Blocks == nil || fn.Pkg == nil || !strings.HasPrefix(fn.Pkg.Pkg.Path(), modPath) {
		return nil
	}
	if len(fn.Name()) == 0 || (fn.Name()[0] >= 'A' && fn.Name()[0] <= 'Z') {
		return nil // exported API stays opaque: rules attach to it by name
	}
	res := fn.Signature.Results()
	if idx >= res.Len() || res.Len() < 2 {
		return nil
	}
	switch res.At(idx).Type().Underlying().(type) {
	case *types.Pointer, *types.Interface, *types.Slice, *types.Map:
	default:
		return nil
	}
	env := map[*ssa.Parameter]*Term{}
	for i, p := range fn.Params {
		if i < len(c.Call.Args) {
			env[p] = tm.Of(c.Call.Args[i])
		}
	}
	sub := &Termer{w: tm.w, fn: fn, env: env, depth: tm.depth + 1, visited: map[ssa.Value]bool{}, cache: map[ssa.Value]*Term{}, Inline: true}
	var only *Term
	for _, b := range fn.Blocks {
		for _, in := range b.Instrs {
			r, ok := in.(*ssa.Return)
			if !ok {
				continue
			}
			v := RetVal(r, idx)
			if v == nil {
				return nil
			}
			if k, isConst := v.(*ssa.Const); isConst && (k.IsNil() || k.Value == nil) {
				continue
			}
			t := sub.Of(v)
			// only pass-through results: the helper hands on what another call produced
			// (e.g. "cs, found := k.GetClientState(..); ...; return cs, nil"); values the
			// helper builds itself keep the helper's name
			switch t.Op {
			case "extract", "call", "invoke":
			default:
				return nil
			}
			if only != nil && only.String() != t.String() {
				return nil
			}
			only = t
		}
	}
	return only
}
