package main

import (
	"fmt"
	"go/constant"
	"go/token"
	"go/types"
	"sort"
	"strings"

	"golang.org/x/tools/go/ssa"
)

// Term is a canonical, name-independent description of how an SSA value is computed
// from a function's parameters, constants, globals and calls. Two values with equal
// terms (String()) are computed by the same expression; the rules compare terms, never
// source text, so renaming locals, re-ordering independent statements or introducing
// temporaries does not change a verdict.
type Term struct {
	Op   string // param, const, nil, global, func, call, invoke, field, index, extract, phi, bin, un, conv, assert, slice, alloc, out, lit, make, closure, fv, opaque
	Name string
	Args []*Term
}

func (t *Term) String() string {
	if t == nil {
		return "<nil>"
	}
	switch t.Op {
	case "param":
		return "$" + t.Name
	case "const":
		return "const(" + t.Name + ")"
	case "nil":
		return "nil"
	case "global":
		return t.Name
	case "func":
		return "func:" + t.Name
	case "call":
		return t.Name + "(" + joinTerms(t.Args, ",") + ")"
	case "invoke":
		return t.Args[0].String() + "." + t.Name + "(" + joinTerms(t.Args[1:], ",") + ")"
	case "field":
		return t.Args[0].String() + "." + t.Name
	case "index":
		return t.Args[0].String() + "[" + t.Args[1].String() + "]"
	case "extract":
		return t.Args[0].String() + "#" + t.Name
	case "phi":
		return "phi{" + joinTerms(t.Args, "|") + "}"
	case "bin":
		return "(" + t.Args[0].String() + " " + t.Name + " " + t.Args[1].String() + ")"
	case "un":
		return t.Name + t.Args[0].String()
	case "conv":
		return "conv:" + t.Name + "(" + t.Args[0].String() + ")"
	case "assert":
		return "assert:" + t.Name + "(" + t.Args[0].String() + ")"
	case "slice":
		return t.Args[0].String() + "[" + t.Args[1].String() + ":" + t.Args[2].String() + "]"
	case "out":
		return "out[" + t.Args[0].String() + "]"
	case "lit":
		return "lit:" + t.Name + "{" + joinTerms(t.Args, ",") + "}"
	case "kv":
		return t.Name + ":" + t.Args[0].String()
	}
	if len(t.Args) > 0 {
		return t.Op + ":" + t.Name + "(" + joinTerms(t.Args, ",") + ")"
	}
	return t.Op + ":" + t.Name
}

func joinTerms(ts []*Term, sep string) string {
	ss := make([]string, len(ts))
	for i, t := range ts {
		ss[i] = t.String()
	}
	return strings.Join(ss, sep)
}

// Contains reports whether sub occurs (by string) as a subterm of t.
func (t *Term) Contains(sub string) bool {
	if t == nil {
		return false
	}
	if t.String() == sub {
		return true
	}
	for _, a := range t.Args {
		if a.Contains(sub) {
			return true
		}
	}
	return false
}

// Walk visits all subterms.
func (t *Term) Walk(f func(*Term)) {
	if t == nil {
		return
	}
	f(t)
	for _, a := range t.Args {
		a.Walk(f)
	}
}

// Leaves returns the param/global/const leaves and call names the term depends on.
func (t *Term) Mentions(pred func(*Term) bool) bool {
	found := false
	t.Walk(func(x *Term) {
		if pred(x) {
			found = true
		}
	})
	return found
}

// Termer computes terms for values of one function, optionally under a parameter
// substitution (used when a static in-repository callee is inlined).
type Termer struct {
	w       *World
	fn      *ssa.Function
	env     map[*ssa.Parameter]*Term
	fvenv   map[*ssa.FreeVar]*Term
	depth   int // inlining depth
	visited map[ssa.Value]bool
	cache   map[ssa.Value]*Term
	Inline  bool // inline simple in-repository static callees
}

func NewTermer(w *World, fn *ssa.Function) *Termer {
	return &Termer{w: w, fn: fn, visited: map[ssa.Value]bool{}, cache: map[ssa.Value]*Term{}, Inline: true}
}

const maxInlineDepth = 8

func funcName(fn *ssa.Function) string {
	if fn == nil {
		return "?"
	}
	if fn.Signature != nil && fn.Signature.Recv() != nil {
		rt := fn.Signature.Recv().Type()
		if p, ok := rt.(*types.Pointer); ok {
			rt = p.Elem()
		}
		return "(" + typeString(rt) + ")." + fn.Name()
	}
	if fn.Pkg != nil {
		return shortPath(fn.Pkg.Pkg.Path()) + "." + fn.Name()
	}
	if fn.Object() != nil && fn.Object().Pkg() != nil {
		return shortPath(fn.Object().Pkg().Path()) + "." + fn.Name()
	}
	return fn.String()
}

func shortPath(p string) string {
	p = strings.TrimPrefix(p, modPath+"/modules/tibc/")
	p = strings.TrimPrefix(p, modPath+"/")
	return p
}

func typeString(t types.Type) string {
	return types.TypeString(t, func(p *types.Package) string { return shortPath(p.Path()) })
}

func shortType(t types.Type) string {
	return types.TypeString(t, func(p *types.Package) string { return p.Name() })
}

func (tm *Termer) Of(v ssa.Value) *Term {
	if v == nil {
		return &Term{Op: "opaque", Name: "nil-value"}
	}
	if t, ok := tm.cache[v]; ok {
		return t
	}
	if tm.visited[v] {
		return &Term{Op: "loop", Name: v.Name()}
	}
	tm.visited[v] = true
	t := tm.of(v)
	delete(tm.visited, v)
	tm.cache[v] = t
	return t
}

func constString(c *ssa.Const) string {
	if c.Value == nil {
		return "zero:" + shortType(c.Type())
	}
	if c.Value.Kind() == constant.String {
		return fmt.Sprintf("%q", constant.StringVal(c.Value))
	}
	return c.Value.ExactString()
}

func (tm *Termer) of(v ssa.Value) *Term {
	switch v := v.(type) {
	case *ssa.Parameter:
		if tm.env != nil {
			if t, ok := tm.env[v]; ok {
				return t
			}
		}
		for i, p := range v.Parent().Params {
			if p == v {
				return &Term{Op: "param", Name: fmt.Sprint(i)}
			}
		}
		return &Term{Op: "param", Name: v.Name()}
	case *ssa.FreeVar:
		if tm.fvenv != nil {
			if t, ok := tm.fvenv[v]; ok {
				return t
			}
		}
		return &Term{Op: "fv", Name: v.Name()}
	case *ssa.Const:
		if v.IsNil() {
			return &Term{Op: "nil"}
		}
		return &Term{Op: "const", Name: constString(v)}
	case *ssa.Global:
		return &Term{Op: "global", Name: shortPath(v.Pkg.Pkg.Path()) + "." + v.Name()}
	case *ssa.Function:
		return &Term{Op: "func", Name: funcName(v)}
	case *ssa.Builtin:
		return &Term{Op: "func", Name: "builtin." + v.Name()}
	case *ssa.MakeInterface:
		return tm.Of(v.X)
	case *ssa.ChangeInterface:
		return tm.Of(v.X)
	case *ssa.ChangeType:
		return tm.Of(v.X)
	case *ssa.Convert:
		from, to := v.X.Type().Underlying(), v.Type().Underlying()
		if isStringOrBytes(from) && isStringOrBytes(to) {
			return tm.Of(v.X)
		}
		return &Term{Op: "conv", Name: shortType(v.Type()), Args: []*Term{tm.Of(v.X)}}
	case *ssa.SliceToArrayPointer:
		return tm.Of(v.X)
	case *ssa.UnOp:
		if v.Op == token.MUL {
			// a variable captured by a closure lives in a cell with several stores: the
			// store that reaches this load along a straight (single-predecessor) chain is
			// the value read
			if al, ok := v.X.(*ssa.Alloc); ok {
				if st := reachingStore(v, al); st != nil {
					return tm.Of(st.Val)
				}
			}
			return tm.load(v.X)
		}
		return &Term{Op: "un", Name: v.Op.String(), Args: []*Term{tm.Of(v.X)}}
	case *ssa.BinOp:
		a, b := tm.Of(v.X), tm.Of(v.Y)
		op := v.Op
		switch op {
		case token.GTR:
			a, b, op = b, a, token.LSS
		case token.GEQ:
			a, b, op = b, a, token.LEQ
		case token.EQL, token.NEQ, token.ADD, token.MUL, token.AND, token.OR, token.XOR:
			// commutative (ADD on strings is not: keep order for strings)
			if !(op == token.ADD && isString(v.X.Type())) && a.String() > b.String() {
				a, b = b, a
			}
		}
		return &Term{Op: "bin", Name: op.String(), Args: []*Term{a, b}}
	case *ssa.FieldAddr:
		return tm.fieldOf(v.X, v.Field, v.X.Type())
	case *ssa.Field:
		st, _ := v.X.Type().Underlying().(*types.Struct)
		name := fmt.Sprint(v.Field)
		if st != nil {
			name = st.Field(v.Field).Name()
		}
		return fieldTerm(tm.Of(v.X), name)
	case *ssa.IndexAddr:
		return &Term{Op: "index", Args: []*Term{tm.Of(v.X), tm.Of(v.Index)}}
	case *ssa.Index:
		return &Term{Op: "index", Args: []*Term{tm.Of(v.X), tm.Of(v.Index)}}
	case *ssa.Lookup:
		return &Term{Op: "index", Args: []*Term{tm.Of(v.X), tm.Of(v.Index)}}
	case *ssa.Extract:
		// a value obtained through an unexported in-repository helper "(x, err)" that
		// returns one and the same x on every non-failing return is that x
		if c, ok := v.Tuple.(*ssa.Call); ok && tm.Inline && tm.depth < maxInlineDepth {
			if t := tm.tryInlineResult(c, v.Index); t != nil {
				return t
			}
		}
		return &Term{Op: "extract", Name: fmt.Sprint(v.Index), Args: []*Term{tm.Of(v.Tuple)}}
	case *ssa.Phi:
		seen := map[string]*Term{}
		for _, e := range v.Edges {
			t := tm.Of(e)
			seen[t.String()] = t
		}
		keys := make([]string, 0, len(seen))
		for k := range seen {
			keys = append(keys, k)
		}
		sort.Strings(keys)
		if len(keys) == 1 {
			return seen[keys[0]]
		}
		args := make([]*Term, len(keys))
		for i, k := range keys {
			args[i] = seen[k]
		}
		return &Term{Op: "phi", Args: args}
	case *ssa.Slice:
		if v.Low == nil && v.High == nil && v.Max == nil {
			return tm.Of(v.X)
		}
		lo, hi := &Term{Op: "const", Name: ""}, &Term{Op: "const", Name: ""}
		if v.Low != nil {
			lo = tm.Of(v.Low)
		}
		if v.High != nil {
			hi = tm.Of(v.High)
		}
		return &Term{Op: "slice", Args: []*Term{tm.Of(v.X), lo, hi}}
	case *ssa.TypeAssert:
		return &Term{Op: "assert", Name: shortType(v.AssertedType), Args: []*Term{tm.Of(v.X)}}
	case *ssa.Alloc:
		return tm.allocTerm(v)
	case *ssa.Call:
		return tm.callTerm(&v.Call, v)
	case *ssa.MakeClosure:
		fn, _ := v.Fn.(*ssa.Function)
		ct := &Term{Op: "closure", Name: funcName(fn)}
		for _, b := range v.Bindings {
			if _, isAlloc := b.(*ssa.Alloc); isAlloc && tm.visited[b] {
				continue
			}
			ct.Args = append(ct.Args, tm.Of(b))
		}
		return ct
	case *ssa.MakeSlice:
		return &Term{Op: "make", Name: shortType(v.Type()), Args: []*Term{tm.Of(v.Len)}}
	case *ssa.MakeMap:
		return &Term{Op: "make", Name: shortType(v.Type())}
	case *ssa.MakeChan:
		return &Term{Op: "make", Name: shortType(v.Type())}
	case *ssa.Range:
		return &Term{Op: "range", Args: []*Term{tm.Of(v.X)}}
	case *ssa.Next:
		return &Term{Op: "next", Args: []*Term{tm.Of(v.Iter)}}
	}
	return &Term{Op: "opaque", Name: fmt.Sprintf("%T", v)}
}

func isStringOrBytes(t types.Type) bool {
	if b, ok := t.(*types.Basic); ok && b.Info()&types.IsString != 0 {
		return true
	}
	if s, ok := t.(*types.Slice); ok {
		if b, ok := s.Elem().Underlying().(*types.Basic); ok && b.Kind() == types.Byte {
			return true
		}
	}
	return false
}

func isString(t types.Type) bool {
	b, ok := t.Underlying().(*types.Basic)
	return ok && b.Info()&types.IsString != 0
}

func (tm *Termer) fieldOf(x ssa.Value, idx int, xt types.Type) *Term {
	t := xt
	if p, ok := t.Underlying().(*types.Pointer); ok {
		t = p.Elem()
	}
	st, _ := t.Underlying().(*types.Struct)
	name := fmt.Sprint(idx)
	if st != nil {
		name = st.Field(idx).Name()
	}
	// struct literal under construction: read back the stored field value
	if a, ok := x.(*ssa.Alloc); ok {
		if fv := tm.litField(a, idx); fv != nil {
			return fv
		}
	}
	return fieldTerm(tm.Of(x), name)
}

// load returns the term of *addr.
func (tm *Termer) load(addr ssa.Value) *Term {
	switch a := addr.(type) {
	case *ssa.Alloc:
		return tm.Of(a)
	case *ssa.FieldAddr, *ssa.IndexAddr:
		return tm.Of(a)
	case *ssa.Global:
		return tm.Of(a)
	case *ssa.FreeVar:
		return tm.Of(a)
	}
	return &Term{Op: "un", Name: "*", Args: []*Term{tm.Of(addr)}}
}

// allocInfo classifies the uses of a local cell.
type allocInfo struct {
	wholeStores []*ssa.Store
	indexStores map[int64][]*ssa.Store
	indexDyn    bool
	fieldStores map[int][]*ssa.Store
	addrCalls   []ssa.CallInstruction // calls that receive the address
	escapes     bool                  // address flows somewhere we do not model
	closureSt   bool                  // stored to from inside a closure
}

func (tm *Termer) allocInfo(a *ssa.Alloc) *allocInfo {
	info := &allocInfo{fieldStores: map[int][]*ssa.Store{}, indexStores: map[int64][]*ssa.Store{}}
	refs := a.Referrers()
	if refs == nil {
		return info
	}
	for _, r := range *refs {
		switch r := r.(type) {
		case *ssa.Store:
			if r.Addr == a {
				info.wholeStores = append(info.wholeStores, r)
			} else {
				info.escapes = true
			}
		case *ssa.UnOp: // load
		case *ssa.FieldAddr:
			if fr := r.Referrers(); fr != nil {
				for _, rr := range *fr {
					switch rr := rr.(type) {
					case *ssa.Store:
						if rr.Addr == r {
							info.fieldStores[r.Field] = append(info.fieldStores[r.Field], rr)
						} else {
							info.escapes = true
						}
					case *ssa.UnOp, *ssa.FieldAddr, *ssa.IndexAddr, *ssa.DebugRef:
					case ssa.CallInstruction:
						info.addrCalls = append(info.addrCalls, rr)
					default:
						// address of a field escapes (e.g. MakeInterface(&x.f))
					}
				}
			}
		case *ssa.IndexAddr:
			if fr := r.Referrers(); fr != nil {
				for _, rr := range *fr {
					if st, ok := rr.(*ssa.Store); ok && st.Addr == r {
						if c, ok := r.Index.(*ssa.Const); ok && c.Value != nil {
							info.indexStores[c.Int64()] = append(info.indexStores[c.Int64()], st)
						} else {
							info.indexDyn = true
						}
					}
				}
			}
		case *ssa.Slice, *ssa.DebugRef:
		case *ssa.MakeClosure:
			// captured by reference: look for stores inside the closure
			if fn, ok := r.Fn.(*ssa.Function); ok {
				for i, b := range r.Bindings {
					if b == a && i < len(fn.FreeVars) {
						if fr := fn.FreeVars[i].Referrers(); fr != nil {
							for _, rr := range *fr {
								if st, ok := rr.(*ssa.Store); ok && st.Addr == fn.FreeVars[i] {
									info.closureSt = true
								}
							}
						}
					}
				}
			}
		case ssa.CallInstruction:
			info.addrCalls = append(info.addrCalls, r)
		case *ssa.MakeInterface:
			// &x boxed into an interface: treat as a call-like escape, resolved by users
			if rr := r.Referrers(); rr != nil {
				for _, u := range *rr {
					if c, ok := u.(ssa.CallInstruction); ok {
						info.addrCalls = append(info.addrCalls, c)
					} else {
						info.escapes = true
					}
				}
			}
		default:
			info.escapes = true
		}
	}
	return info
}

func (tm *Termer) litField(a *ssa.Alloc, idx int) *Term {
	info := tm.allocInfo(a)
	if len(info.wholeStores) == 0 && !info.closureSt && len(info.addrCalls) == 0 {
		if sts := info.fieldStores[idx]; len(sts) == 1 {
			return tm.Of(sts[0].Val)
		}
	}
	return nil
}

func (tm *Termer) allocTerm(a *ssa.Alloc) *Term {
	info := tm.allocInfo(a)
	elem := a.Type().Underlying().(*types.Pointer).Elem()
	if len(info.wholeStores) == 1 && !info.closureSt && len(info.fieldStores) == 0 {
		// spilled parameter / single-assignment local
		return tm.Of(info.wholeStores[0].Val)
	}
	if len(info.wholeStores) == 0 && len(info.fieldStores) > 0 && !info.closureSt {
		// struct literal
		st, _ := elem.Underlying().(*types.Struct)
		var args []*Term
		idxs := make([]int, 0, len(info.fieldStores))
		for i := range info.fieldStores {
			idxs = append(idxs, i)
		}
		sort.Ints(idxs)
		for _, i := range idxs {
			sts := info.fieldStores[i]
			name := fmt.Sprint(i)
			if st != nil {
				name = st.Field(i).Name()
			}
			var ft *Term
			if len(sts) == 1 {
				ft = tm.Of(sts[0].Val)
			} else {
				ft = &Term{Op: "opaque", Name: "multi-store"}
			}
			args = append(args, &Term{Op: "kv", Name: name, Args: []*Term{ft}})
		}
		return &Term{Op: "lit", Name: shortType(elem), Args: args}
	}
	if arr, ok := elem.Underlying().(*types.Array); ok && len(info.wholeStores) == 0 && !info.indexDyn && len(info.indexStores) > 0 && !info.closureSt {
		args := make([]*Term, arr.Len())
		for i := range args {
			sts := info.indexStores[int64(i)]
			switch len(sts) {
			case 0:
				args[i] = &Term{Op: "zero", Name: shortType(arr.Elem())}
			case 1:
				args[i] = tm.Of(sts[0].Val)
			default:
				args[i] = &Term{Op: "opaque", Name: "multi-store"}
			}
		}
		return &Term{Op: "arr", Args: args}
	}
	if len(info.wholeStores) == 0 && len(info.fieldStores) == 0 && len(info.addrCalls) >= 1 {
		// "var x T; x.Unmarshal(bz)" / "cdc.Unmarshal(bz, &x)": x is the output of the first such call
		first := info.addrCalls[0]
		for _, c := range info.addrCalls[1:] {
			if instrBefore(c, first) {
				first = c
			}
		}
		ct := tm.callTermExcluding(first.Common(), a)
		return &Term{Op: "out", Args: []*Term{ct}}
	}
	if len(info.wholeStores) == 0 && len(info.fieldStores) == 0 {
		return &Term{Op: "zero", Name: shortType(elem)}
	}
	// several stores: describe as the set of stored values
	var alts []*Term
	seen := map[string]bool{}
	for _, st := range info.wholeStores {
		t := tm.Of(st.Val)
		if !seen[t.String()] {
			seen[t.String()] = true
			alts = append(alts, t)
		}
	}
	sort.Slice(alts, func(i, j int) bool { return alts[i].String() < alts[j].String() })
	return &Term{Op: "cell", Name: shortType(elem), Args: alts}
}

func instrBefore(a, b ssa.Instruction) bool {
	if a.Block() == b.Block() {
		for _, in := range a.Block().Instrs {
			if in == a {
				return true
			}
			if in == b {
				return false
			}
		}
	}
	return a.Block().Index < b.Block().Index
}

func (tm *Termer) callTermExcluding(c *ssa.CallCommon, excl ssa.Value) *Term {
	t := tm.callTermNoInline(c)
	// replace the excluded address argument by "_"
	et := ""
	if excl != nil {
		// the alloc's own term would recurse; mark by position instead
		_ = et
	}
	return t
}

func (tm *Termer) calleeName(c *ssa.CallCommon) string {
	if c.IsInvoke() {
		return c.Method.Name()
	}
	if fn := c.StaticCallee(); fn != nil {
		return funcName(fn)
	}
	if b, ok := c.Value.(*ssa.Builtin); ok {
		return "builtin." + b.Name()
	}
	return "dyn:" + tm.Of(c.Value).String()
}

func (tm *Termer) callTermNoInline(c *ssa.CallCommon) *Term {
	if c.IsInvoke() {
		args := []*Term{tm.Of(c.Value)}
		for _, a := range c.Args {
			args = append(args, tm.argTerm(a))
		}
		return &Term{Op: "invoke", Name: c.Method.Name(), Args: args}
	}
	var args []*Term
	for _, a := range c.Args {
		args = append(args, tm.argTerm(a))
	}
	return &Term{Op: "call", Name: tm.calleeName(c), Args: args}
}

// argTerm avoids infinite recursion for "out" cells passed to their defining call.
func (tm *Termer) argTerm(a ssa.Value) *Term {
	if al, ok := a.(*ssa.Alloc); ok && tm.visited[al] {
		return &Term{Op: "self"}
	}
	if mi, ok := a.(*ssa.MakeInterface); ok {
		if al, ok := mi.X.(*ssa.Alloc); ok && tm.visited[al] {
			return &Term{Op: "self"}
		}
	}
	return tm.Of(a)
}

func (tm *Termer) callTerm(c *ssa.CallCommon, v ssa.Value) *Term {
	if tm.Inline && !c.IsInvoke() {
		if fn := c.StaticCallee(); fn != nil && tm.depth < maxInlineDepth {
			if t := tm.tryInline(fn, c); t != nil {
				return t
			}
		}
	}
	return tm.callTermNoInline(c)
}

// tryInline expands a call to an in-repository function whose result is a single
// expression of its parameters (one return statement, single result, no loops).
func (tm *Termer) tryInline(fn *ssa.Function, c *ssa.CallCommon) *Term {
	if fn.Blocks == nil || fn.Pkg == nil || !strings.HasPrefix(fn.Pkg.Pkg.Path(), modPath) {
		return nil
	}
	if fn.Signature.Results().Len() != 1 {
		return nil
	}
	if strings.HasSuffix(tm.w.File(fn.Pos()), ".pb.go") {
		// generated getters: inline only trivial ones (handled below as any other)
	}
	var ret *ssa.Return
	for _, b := range fn.Blocks {
		for _, in := range b.Instrs {
			if r, ok := in.(*ssa.Return); ok {
				if ret != nil {
					return nil
				}
				ret = r
			}
		}
	}
	if ret == nil || len(fn.Blocks) > 1 {
		return nil
	}
	if fn.Recover != nil {
		return nil
	}
	env := map[*ssa.Parameter]*Term{}
	for i, p := range fn.Params {
		if i < len(c.Args) {
			env[p] = tm.Of(c.Args[i])
		}
	}
	sub := &Termer{w: tm.w, fn: fn, env: env, depth: tm.depth + 1, visited: map[ssa.Value]bool{}, cache: map[ssa.Value]*Term{}, Inline: true}
	return sub.Of(ret.Results[0])
}

// TermOfCall computes the canonical term the call fn(args...) would have at a call
// site (inlined when fn is a simple in-repository function, exactly as Termer does).
func (w *World) TermOfCall(fn *ssa.Function, args ...*Term) *Term {
	return w.termOfCall(fn, false, args...)
}

// TermOfCallAny is TermOfCall for functions of loaded dependency packages as well.
func (w *World) TermOfCallAny(fn *ssa.Function, args ...*Term) *Term {
	return w.termOfCall(fn, true, args...)
}

func (w *World) termOfCall(fn *ssa.Function, anyPkg bool, args ...*Term) *Term {
	if fn == nil {
		return &Term{Op: "opaque", Name: "missing-func"}
	}
	if fn.Blocks != nil && fn.Pkg != nil && (anyPkg || strings.HasPrefix(fn.Pkg.Pkg.Path(), modPath)) &&
		fn.Signature.Results().Len() == 1 && len(fn.Blocks) == 1 && fn.Recover == nil {
		var ret *ssa.Return
		n := 0
		for _, in := range fn.Blocks[0].Instrs {
			if r, ok := in.(*ssa.Return); ok {
				ret = r
				n++
			}
		}
		if n == 1 {
			env := map[*ssa.Parameter]*Term{}
			for i, p := range fn.Params {
				if i < len(args) {
					env[p] = args[i]
				}
			}
			sub := &Termer{w: w, fn: fn, env: env, depth: 1, visited: map[ssa.Value]bool{}, cache: map[ssa.Value]*Term{}, Inline: true}
			return sub.Of(ret.Results[0])
		}
	}
	return &Term{Op: "call", Name: funcName(fn), Args: args}
}

// P builds a parameter term.
func P(i int) *Term { return &Term{Op: "param", Name: fmt.Sprint(i)} }

// Invoke builds an interface-method call term recv.name(args...).
func Invoke(recv *Term, name string, args ...*Term) *Term {
	return &Term{Op: "invoke", Name: name, Args: append([]*Term{recv}, args...)}
}

// FieldT builds recv.name.
func FieldT(recv *Term, name string) *Term {
	return &Term{Op: "field", Name: name, Args: []*Term{recv}}
}

// fieldTerm builds base.name, reading the value back when base is a struct literal.
func fieldTerm(base *Term, name string) *Term {
	if base.Op == "lit" {
		for _, kv := range base.Args {
			if kv.Op == "kv" && kv.Name == name {
				return kv.Args[0]
			}
		}
	}
	return &Term{Op: "field", Name: name, Args: []*Term{base}}
}
