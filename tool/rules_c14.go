package main

import (
	"fmt"
	"sort"
	"strings"

	"golang.org/x/tools/go/ssa"
)

func init() {
	register("C14", propMeta{
		Explanation: "Decides, on every path: each of the three ClientState.Status implementations returns Expired exactly on the edge of a comparison between (timestamp of the consensus state stored at the client's latest height, read from the given store) + the client's trusting period and ctx.BlockTime(), and Active on the opposite edge; no consensus code reads a calendar component of a time.Time (Nanosecond, Second, Minute, ... ) where an absolute time is needed, and inside one client package every comparison of timestamp+trustingPeriod with the block time uses the same BlockTime accessor (unit) and the same comparison operator; the Tendermint client's expiry predicate has the same shape (operator at the boundary) as cometbft's light.HeaderExpired, which light.Verify applies to the same header; ClientKeeper.UpdateClient calls CheckHeaderAndUpdateState only past Status(...) == Active of the same client and store; every ClientState.Verify* call of the packet keeper (RecvPacket, AcknowledgePacket, RecvCleanPacket) is dominated by Status(ctx, ClientStore(ctx, same chain), cdc) == Active of the same client. For the integer clients the expiry comparison must have the additive form (timestamp + trusting period) < block time; a difference of unsigned values (which wraps when the newest header is ahead of the block time) is reported. NOT decided: which strictness (< or <=) is the right one at the exact boundary for the BSC/ETH clients, unit conventions of stored timestamps beyond accessor agreement.",
		Assumptions: []string{"consensus-state timestamps of BSC/ETH clients are Unix seconds (header.Time)"},
		Trusted:     commonTrusted,
	}, ruleC14)
}

var calendarAccessors = map[string]bool{"Nanosecond": true, "Second": true, "Minute": true, "Hour": true, "Day": true, "Month": true, "Year": true, "YearDay": true, "Weekday": true, "Clock": true, "Date": true, "ISOWeek": true}

func blockTimeAccessors(t *Term) []string {
	var out []string
	t.Walk(func(x *Term) {
		if x.Op == "call" && strings.HasPrefix(x.Name, "(time.Time).") && len(x.Args) >= 1 && strings.Contains(x.Args[0].String(), "Context).BlockTime(") {
			out = append(out, strings.TrimPrefix(x.Name, "(time.Time)."))
		}
	})
	return out
}

func ruleC14(w *World, r *Report) {
	k := newK(w, r)
	// ---- Status shape
	for _, ct := range clientTypes {
		fi := k.method(ct, "ClientState", "Status")
		if fi == nil {
			continue
		}
		fn := fnShort(fi)
		cs, store := P(0), P(2)
		latest := w.TermOfCall(w.Method(ct, "ClientState", "GetLatestHeight"), cs).String()
		gcs := w.Func(ct, "GetConsensusState")
		if r.BrokenIf(gcs == nil, "%s.GetConsensusState not found", shortPath(ct)) {
			continue
		}
		tsTerm := funcName(gcs) + "(" + store.String() + "," + P(3).String() + "," + latest + ")#0.Timestamp"
		period := FieldT(cs, "TrustingPeriod").String()
		isExpiryCmp := func(f Fact) bool {
			s := f.Atom
			// the operands must be exactly these values: a merged (phi) or otherwise
			// substituted timestamp/period/clock is a different comparison
			if strings.Contains(s, "phi{") || strings.Contains(s, "cell:") {
				return false
			}
			return strings.Contains(s, tsTerm) && strings.Contains(s, period) && strings.Contains(s, "Context).BlockTime($1)")
		}
		var expiredFact, activeFact *Fact
		nExp, nAct := 0, 0
		for _, rt := range fi.Returns() {
			v := fi.T.Of(RetVal(rt.Instr, 0)).String()
			switch v {
			case `const("Expired")`:
				nExp++
				var hit *Fact
				for _, f := range fi.FactsAt(rt.Instr.Block()) {
					if isExpiryCmp(f) {
						ff := f
						hit = &ff
					}
				}
				expiredFact = hit
				r.Check(hit != nil, "C14.status.shape/"+ctName(ct)+".expired", "MUST-PASS", fn, fi.InstrPos(rt.Instr),
					"Expired is returned on a comparison of latestConsensus.Timestamp + TrustingPeriod with ctx.BlockTime()",
					"Expired is returned without a dominating comparison of (timestamp of the consensus state at the latest height, from the given store) + trusting period with ctx.BlockTime(); facts: "+clip(strings.Join(fi.AtomsAt(rt.Instr.Block()), "; ")))
			case `const("Active")`:
				nAct++
				var hit *Fact
				for _, f := range fi.FactsAt(rt.Instr.Block()) {
					if isExpiryCmp(f) {
						ff := f
						hit = &ff
					}
				}
				activeFact = hit
				r.Check(hit != nil, "C14.status.shape/"+ctName(ct)+".active", "MUST-PASS", fn, fi.InstrPos(rt.Instr),
					"Active is returned only on the opposite edge of the expiry comparison",
					"Active can be returned without having passed the expiry comparison")
			}
		}
		r.Check(nExp > 0 && nAct > 0, "C14.status.shape/"+ctName(ct)+".both", "MUST-PASS", fn, w.Pos(fi.Fn.Pos()), "Status can report both Expired and Active", fmt.Sprintf("Status has %d Expired and %d Active returns", nExp, nAct))
		if expiredFact != nil && activeFact != nil {
			r.Check(expiredFact.If == activeFact.If && expiredFact.Succ != activeFact.Succ, "C14.status.shape/"+ctName(ct)+".same-test", "MUST-PASS", fn, fi.InstrPos(expiredFact.If), "Expired and Active are the two edges of one comparison", "Expired and Active are decided by different comparisons")
		}
		// integer form (BSC, ETH: unsigned seconds): Expired exactly on  timestamp + period </<= now.
		// A difference (now - timestamp) is a different comparison on unsigned values: it wraps when
		// the newest header is ahead of the block time (the ETH client accepts headers up to 15 s in
		// the future), reporting a fresh client as Expired.
		if f := expiredFact; f != nil && (f.Op == "<" || f.Op == "<=") {
			sumOK := f.L.Op == "bin" && f.L.Name == "+" && len(f.L.Args) == 2 &&
				((f.L.Args[0].String() == tsTerm && f.L.Args[1].String() == period) || (f.L.Args[1].String() == tsTerm && f.L.Args[0].String() == period))
			clockOK := strings.Contains(f.R.String(), "Context).BlockTime($1)") && !strings.Contains(f.R.String(), tsTerm) && !strings.Contains(f.R.String(), period)
			minus := false
			for _, side := range []*Term{f.L, f.R} {
				side.Walk(func(x *Term) {
					if x.Op == "bin" && x.Name == "-" {
						minus = true
					}
				})
			}
			r.Check(sumOK && clockOK && !minus, "C14.status.shape/"+ctName(ct)+".sum", "BIND", fn, fi.InstrPos(f.If), "Expired iff (timestamp + trusting period) "+f.Op+" block time",
				"the expiry comparison is '"+clip(f.Atom)+"', not (timestamp + trusting period) < block time: a difference of unsigned values wraps when the newest header is ahead of the block time, and a rearranged comparison changes which side of the boundary is Expired")
		}
	}

	// ---- calendar accessors anywhere in consensus code
	nCal := 0
	for _, fn := range w.Funcs {
		if !w.IsProd(fn) {
			continue
		}
		for _, b := range fn.Blocks {
			for _, in := range b.Instrs {
				ci, ok := in.(ssa.CallInstruction)
				if !ok {
					continue
				}
				f := ci.Common().StaticCallee()
				if f == nil || f.Signature.Recv() == nil {
					continue
				}
				if typeString(f.Signature.Recv().Type()) == "time.Time" && calendarAccessors[f.Name()] {
					nCal++
					r.Violate("C14.clock/"+funcName(fn)+":"+f.Name(), "FORBIDDEN-REACH", funcName(fn), w.Pos(in.Pos()),
						"consensus code reads the calendar component time.Time."+f.Name()+"() (a value in a small cyclic range) where an absolute time is required; use Unix/UnixNano/Before/After")
				}
			}
		}
	}
	if nCal == 0 {
		r.OK("C14.clock/none", "FORBIDDEN-REACH", "all PROD functions", "-", "no calendar-component accessor of time.Time is used in consensus code")
	}
	r.Stats["prod_functions_scanned"] = len(w.Funcs)

	// ---- unit and operator agreement per client package
	for _, ct := range clientTypes {
		type use struct{ where, accessor, op string }
		var uses []use
		for _, fn := range w.Funcs {
			if fn.Pkg == nil || fn.Pkg.Pkg.Path() != ct {
				continue
			}
			fi := w.FI(fn)
			for _, f := range fi.facts {
				if f.Succ != 0 {
					continue // one record per If
				}
				s := f.Cond.String()
				if !strings.Contains(s, "TrustingPeriod") || !strings.Contains(s, "BlockTime(") {
					continue
				}
				acc := blockTimeAccessors(f.Cond)
				a := "(direct)"
				if len(acc) > 0 {
					a = strings.Join(acc, "+")
				}
				uses = append(uses, use{funcName(fn) + " " + w.Pos(f.If.Pos()), a, f.Cond.Op + ":" + f.Cond.Name})
			}
		}
		accs, ops := map[string]bool{}, map[string]bool{}
		var desc []string
		for _, u := range uses {
			accs[u.accessor] = true
			ops[u.op] = true
			desc = append(desc, u.where+" uses "+u.accessor+" "+u.op)
		}
		sort.Strings(desc)
		if len(uses) == 0 {
			r.Violate("C14.unit/"+ctName(ct), "SIBLING", shortPath(ct), "-", "no comparison of timestamp + trusting period with the block time found in this client")
			continue
		}
		r.Check(len(accs) == 1 && len(ops) == 1, "C14.unit/"+ctName(ct), "SIBLING", shortPath(ct), "-",
			fmt.Sprintf("%d expiry comparison(s) agree on accessor and operator: %s", len(uses), strings.Join(desc, "; ")),
			"expiry comparisons inside one client disagree on the block-time unit or on the operator: "+strings.Join(desc, "; "))
	}

	// ---- Tendermint predicate agrees with cometbft light.HeaderExpired
	if fi := k.method(pTM, "ClientState", "IsExpired"); fi != nil {
		mine := w.TermOfCall(fi.Fn, &Term{Op: "param", Name: "CS"}, &Term{Op: "param", Name: "TS"}, &Term{Op: "param", Name: "NOW"}).String()
		mine = strings.ReplaceAll(mine, "$CS.TrustingPeriod", "$PERIOD")
		lib := ""
		if he := w.Func("github.com/cometbft/cometbft/light", "HeaderExpired"); he != nil && he.Blocks != nil {
			lt := w.TermOfCallAny(he, &Term{Op: "param", Name: "H"}, &Term{Op: "param", Name: "PERIOD"}, &Term{Op: "param", Name: "NOW"})
			lib = strings.ReplaceAll(lt.String(), "$H.Header.Time", "$TS")
			lib = strings.ReplaceAll(lib, "$H.Time", "$TS")
		}
		if lib == "" {
			r.Undecided("C14.sibling/tendermint.IsExpired", "SIBLING", fnShort(fi), w.Pos(fi.Fn.Pos()), "cometbft light.HeaderExpired not loadable for comparison")
		} else {
			r.Check(mine == lib, "C14.sibling/tendermint.IsExpired", "SIBLING", fnShort(fi), w.Pos(fi.Fn.Pos()),
				"IsExpired has the shape of cometbft light.HeaderExpired: "+mine,
				"the client's expiry predicate "+mine+" differs from the one light.Verify applies to the same header ("+lib+"): client status and header verification disagree, e.g. exactly at the boundary")
		}
	}

	// ---- UpdateClient requires Active
	k.activeGuardRule("C14.update", pClientKeeper, "Keeper", "UpdateClient", []string{"CheckHeaderAndUpdateState"})
	// ---- packets require Active
	k.activeGuardRule("C14.packets", pPacketKeeper, "Keeper", "RecvPacket", []string{"VerifyPacketCommitment"})
	k.activeGuardRule("C14.packets", pPacketKeeper, "Keeper", "AcknowledgePacket", []string{"VerifyPacketAcknowledgement"})
	k.activeGuardRule("C14.packets", pPacketKeeper, "Keeper", "RecvCleanPacket", []string{"VerifyPacketCleanCommitment"})
	r.MinInstances("C14.", 18)
}

// activeGuardRule: every call of one of the named ClientState methods in the function
// is dominated by  X.Status(ctx, store-of-X, cdc) == Active  for the same client X and
// a store looked up for the same chain.
func (k *K) activeGuardRule(id, pkg, typ, name string, methods []string) {
	fi := k.method(pkg, typ, name)
	if fi == nil {
		return
	}
	fn := fnShort(fi)
	n := 0
	for _, m := range methods {
		for _, c := range callsNamed(fi, m) {
			if !c.Call.IsInvoke() {
				continue
			}
			n++
			recv := fi.T.Of(c.Call.Value).String()
			// chain of the client: GetClientState(ctx, X)#0
			ok := fi.HasFact(c.Block(), func(f Fact) bool {
				if f.Op != "==" {
					return false
				}
				for _, pr := range [][2]*Term{{f.L, f.R}, {f.R, f.L}} {
					st, other := pr[0], pr[1]
					if other.String() != `const("Active")` {
						continue
					}
					if st.Op != "invoke" || st.Name != "Status" || len(st.Args) != 4 || st.Args[0].String() != recv {
						continue
					}
					// store belongs to the same chain as the client
					store := st.Args[2]
					rt := fi.T.Of(c.Call.Value)
					if rt.Op == "extract" && len(rt.Args[0].Args) == 3 {
						chain := rt.Args[0].Args[2].String()
						if (store.Op == "invoke" || store.Op == "call") && strings.HasSuffix(store.Name, "ClientStore") && store.Args[len(store.Args)-1].String() == chain {
							return true
						}
						// ClientStore inlined: a prefix store whose prefix is built from the same chain name
						if store.Op == "call" && store.Name == "cosmossdk.io/store/prefix.NewStore" && store.Contains(chain) {
							return true
						}
					}
				}
				return false
			})
			k.r.Check(ok, id+"/"+name+"."+m, "GUARD-DOM", fn, fi.InstrPos(c),
				m+" dominated by Status(ctx, ClientStore(ctx, same chain), cdc) == Active of the same client",
				m+" is reachable without requiring the verifying client to be Active (an expired or frozen client would still be used)")
		}
	}
	if n == 0 {
		k.r.Violate(id+"/"+name, "GUARD-DOM", fn, k.w.Pos(fi.Fn.Pos()), "none of "+strings.Join(methods, ",")+" is called here")
	}
}
