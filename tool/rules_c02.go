package main

import (
	"fmt"
	"go/ast"
	"sort"
	"strings"

	"golang.org/x/tools/go/ssa"
)

func init() {
	register("C02", propMeta{
		Explanation: "Decides the at-most-once half structurally: in Keeper.RecvPacket the receipt write is dominated by the not-found edge of a receipt lookup with the same (source,dest,sequence) key and every accepting path (nil return and the ErrUnauthorized return) passes the receipt write; ValidatePacket succeeds only past 'clean point < packet sequence' where the clean point is read under the packet's own (source,dest) and dominates RecvPacket and AcknowledgePacket; the application callback runs only where the packet's destination equals this chain's name and after keeper success; receipts are deleted only from CleanPacket/RecvCleanPacket and written only from RecvPacket/InitGenesis; every entry that deletes receipts up to N writes the clean point N under the same pair on every success path. Also: the receipts a clean deletes are exactly the sequences clean+1..N (the deleting helper walks sequences, not a key range) and the clean point only moves forward (ValidateCleanPacket refuses N <= clean), so a deleted receipt stays covered by the clean guard; in msgServer.RecvPacket the application callback and the acknowledgement write are dominated by the keeper's success; packet genesis records are exported from and restored into their own key class, with source/destination/sequence under the parameter of the same role and unconditionally. NOT decided: liveness (a genuine packet is accepted), counting callbacks over histories.",
		Assumptions: []string{"cosmos-sdk store branching discards writes of failed messages"},
		Trusted:     commonTrusted,
	}, ruleC02)
}

// isCleanRead: BigEndianToUint64(store.Get(clean-key(src,dst)))
func (k *K) isCleanRead(t *Term, src, dst string) bool {
	if t == nil || t.Op != "call" || !strings.HasSuffix(t.Name, "types.BigEndianToUint64") || len(t.Args) != 1 {
		return false
	}
	return k.isKeyRead(t.Args[0], "clean", []string{src, dst})
}

// isKeyRead: store.Get(key) with key of the given class and hole terms.
func (k *K) isKeyRead(t *Term, class string, holes []string) bool {
	if t == nil || t.Op != "invoke" || t.Name != "Get" || len(t.Args) != 2 {
		return false
	}
	sh := normalize(append(k.w.storePrefix(t.Args[0], 0), k.w.shapeOf(t.Args[1], 0)...))
	return sh.Class() == class && strings.Join(sh.HoleTerms(), ",") == strings.Join(holes, ",")
}

// validatePacketRule checks Keeper.ValidatePacket's clean-point guard (shared by C02, C10).
func (k *K) validatePacketRule(id string) {
	fi := k.method(pPacketKeeper, "Keeper", "ValidatePacket")
	if fi == nil {
		return
	}
	pkt := paramByType(fi.Fn, "exported.PacketI")
	if k.r.BrokenIf(pkt == nil, "ValidatePacket: packet parameter not identified") {
		return
	}
	pk := ifacePkt(pkt)
	ok, ret := k.successRequires(fi, func(f Fact) bool {
		return f.Op == "<" && f.R.String() == pk.seq && k.isCleanRead(f.L, pk.src, pk.dst)
	}, 2)
	k.r.Check(ok, id+"/ValidatePacket", "GUARD-DOM", fnShort(fi), k.w.Pos(fi.Fn.Pos()),
		"ValidatePacket succeeds only past cleanPoint(src,dst) < packet.GetSequence()",
		"ValidatePacket can succeed without the check 'clean point of (packet source, packet dest) < packet sequence' (wrong operator, operand or key) — offending return at "+retPos(fi, ret))
	// basic validation is passed too
	var vb []*ssa.Call
	for _, c := range callsNamed(fi, "ValidateBasic") {
		vb = append(vb, c)
	}
	ok2, ret2 := k.successPassesCall(fi, vb)
	k.r.Check(len(vb) > 0 && ok2, id+"/ValidatePacket.basic", "MUST-PASS", fnShort(fi), k.w.Pos(fi.Fn.Pos()),
		"ValidatePacket succeeds only after packet.ValidateBasic()", "ValidatePacket can succeed without packet.ValidateBasic() — offending return at "+retPos(fi, ret2))
}

// validateDominates: in fi every effect site and accepting return is dominated by ValidatePacket(packet)==nil.
func (k *K) validateDominates(id string, fi *FnInfo, pkt *Term, sentinel string) {
	var validates []*ssa.Call
	for _, c := range callsNamed(fi, "ValidatePacket") {
		a := CallArgs(&c.Call)
		if len(a) >= 2 && fi.T.Of(a[1]).String() == pkt.String() {
			validates = append(validates, c)
		}
	}
	sites := append(k.EffectSites(fi), returnSites(fi, sentinel)...)
	k.requireErrNilDominates(id, fi, validates, sites, "ValidatePacket(packet)")
}

// whoMayReach: every call-graph root from which a function with a matching direct store
// operation is reachable, without passing through an allowed entry, is a violation.
func (k *K) whoMayReach(id, eff string, allowed []*ssa.Function) {
	allow := map[*ssa.Function]bool{}
	var names []string
	for _, a := range allowed {
		if a != nil {
			allow[a] = true
			names = append(names, funcName(a))
		}
	}
	n := 0
	for _, fn := range k.w.Funcs {
		for _, op := range k.cg.Ops(fn) {
			if op.Op+":"+op.Class() != eff {
				continue
			}
			n++
			// backward search not expanding allowed entries
			seen := map[*ssa.Function]bool{fn: true}
			parent := map[*ssa.Function]*ssa.Function{}
			stack := []*ssa.Function{fn}
			var bad []string
			for len(stack) > 0 {
				f := stack[len(stack)-1]
				stack = stack[:len(stack)-1]
				if allow[f] {
					continue
				}
				callers := k.cg.Callers[f]
				isRoot := len(callers) == 0
				if isRoot && f != fn || (isRoot && f == fn) {
					// a root that is not an allowed entry
					if f.Parent() == nil && (ast.IsExported(f.Name()) || f != fn) {
						chain := funcName(f)
						for x := f; parent[x] != nil; x = parent[x] {
							chain += " -> " + funcName(parent[x])
						}
						bad = append(bad, chain)
					}
				}
				for c := range callers {
					if !k.w.IsProd(c) {
						continue // test helpers, simulation, CLI and the sample app are not consensus entry points
					}
					if !seen[c] {
						seen[c] = true
						parent[c] = f
						stack = append(stack, c)
					}
				}
			}
			sort.Strings(bad)
			k.r.Check(len(bad) == 0, id+"/"+funcName(fn), "WHO-MAY-CALL", funcName(fn), k.w.Pos(op.Instr.Pos()),
				eff+" here is reachable only through {"+strings.Join(names, ", ")+"}",
				eff+" here is reachable from entry points outside {"+strings.Join(names, ", ")+"}: "+strings.Join(bad, "; "))
		}
	}
	if n == 0 {
		k.r.Violate(id+"/none", "WHO-MAY-CALL", "-", "-", "no store operation "+eff+" found in the repository (the state the property relies on is never written)")
	}
}

func ruleC02(w *World, r *Report) {
	k := newK(w, r)
	fi := k.method(pPacketKeeper, "Keeper", "RecvPacket")
	if fi == nil {
		return
	}
	pkt := paramByType(fi.Fn, "exported.PacketI")
	if r.BrokenIf(pkt == nil, "RecvPacket: packet parameter not identified") {
		return
	}
	pk := ifacePkt(pkt)
	fn := fnShort(fi)

	// --- receipt lookup before receipt write, same key
	sets := k.callsWithEffect(fi, "Set:receipts")
	if len(sets) == 0 {
		r.Violate("C02.receipt.set/none", "MUST-PASS", fn, w.Pos(fi.Fn.Pos()), "RecvPacket never writes a packet receipt")
	}
	checks := k.presenceChecks(fi, "receipts")
	wantKey := fmt.Sprintf("%q<str %s>%q<str %s>%q<dec %s>", "receipts/", pk.src, "/", pk.dst, "/sequences/", pk.seq)
	for _, s := range sets {
		setShapes := k.KeyShapesAt(fi, s, "receipts", "Set")
		r.Check(len(setShapes) == 1 && setShapes[0] == wantKey, "C02.receipt.key/RecvPacket", "KEY-SHAPE", fn, fi.InstrPos(s),
			"receipt written under "+wantKey, fmt.Sprintf("receipt written under %v, expected %s", setShapes, wantKey))
		ok := false
		detail := "no receipt lookup dominates the receipt write"
		for _, c := range checks {
			bt := boolResultTerm(fi, c)
			if bt == "" {
				continue
			}
			if !fi.HasAtom(s.Block(), "!"+bt) {
				continue
			}
			rd := k.KeyShapesAt(fi, c, "receipts", "Get", "Has")
			if len(rd) == 1 && len(setShapes) == 1 && rd[0] == setShapes[0] {
				ok = true
			} else {
				detail = fmt.Sprintf("receipt lookup reads %v but the receipt is written under %v", rd, setShapes)
			}
		}
		r.Check(ok, "C02.receipt.check/RecvPacket", "GUARD-DOM", fn, fi.InstrPos(s),
			"receipt write dominated by the not-found edge of a lookup of the same key", detail)
	}
	// --- every accepting path writes the receipt
	isSet := func(in ssa.Instruction) bool {
		for _, s := range sets {
			if ssa.Instruction(s) == in {
				return true
			}
		}
		return false
	}
	for _, s := range returnSites(fi, errUnauthorized) {
		path := fi.PathAvoiding(s.Instr, isSet)
		r.Check(path == nil, "C02.receipt.set/"+s.What, "MUST-PASS", fn, fi.InstrPos(s.Instr),
			"every path to this accepting return writes the receipt",
			"accepting return reachable without writing the receipt: "+fi.DescribePath(path))
	}

	// --- clean-point guard
	k.validatePacketRule("C02.clean.guard")
	k.validateDominates("C02.clean.dom/RecvPacket", fi, pkt, errUnauthorized)
	if fa := k.method(pPacketKeeper, "Keeper", "AcknowledgePacket"); fa != nil {
		if p := paramByType(fa.Fn, "exported.PacketI"); p != nil {
			k.validateDominates("C02.clean.dom/AcknowledgePacket", fa, p, "")
		}
	}

	// --- callback only on the destination chain
	k.callbackChainRule("C02.cb.dest", "RecvPacket", "OnRecvPacket", "GetDestChain")

	// --- owners of receipt writes/deletes
	clean := w.Method(pPacketKeeper, "Keeper", "CleanPacket")
	recvClean := w.Method(pPacketKeeper, "Keeper", "RecvCleanPacket")
	initGen := w.Func(pPacket, "InitGenesis")
	k.whoMayReach("C02.del.owner", "Delete:receipts", []*ssa.Function{clean, recvClean})
	k.whoMayReach("C02.set.owner", "Set:receipts", []*ssa.Function{fi.Fn, initGen})

	// --- deleting entries move the clean point
	for _, name := range []string{"CleanPacket", "RecvCleanPacket"} {
		k.cleanPointWrittenRule("C02.del.cleanpoint", name)
	}
	// the receipts a clean deletes are exactly those at or below the new clean point (the deleting
	// helpers walk sequences clean+1..N, not a key range), and the clean point only moves forward:
	// otherwise a deleted receipt is no longer covered by the clean guard (shared with C10)
	k.cleanLoopRule("C02.del.range", "cleanReceiptBySeq", "receipts")
	k.validateCleanRule("C02.clean.forward")
	// the application runs only after the keeper accepted the packet (shared with C01)
	k.msgRecvRule("C02")
	// a genuine packet can be accepted at all only if the verifying / peer client is chosen by
	// the route table (shared with C11/C13)
	k.fromTableRule("C02.from")
	// receipts survive an export/import under the keys they were exported from (shared with C16)
	k.genesisFieldRule("C02.genesis")
	r.MinInstances("C02.", 18)
}

// callbackChainRule: in msgServer.<handler> the router callback <cb> is dominated by
// msg.Packet.<getter>() == ClientKeeper.GetChainName(ctx).
func (k *K) callbackChainRule(id, handler, cb, getter string) {
	fi := k.method(pCoreKeeper, "msgServer", handler)
	if fi == nil {
		return
	}
	fn := fnShort(fi)
	var msg *Term
	for i, p := range fi.Fn.Params {
		if strings.Contains(typeString(p.Type()), "04-packet/types.Msg") {
			msg = P(i)
		}
	}
	if k.r.BrokenIf(msg == nil, "%s: msg parameter not identified", fn) {
		return
	}
	mp := FieldT(msg, "Packet")
	field := k.w.TermOfCall(k.w.Method(pPacketTypes, "Packet", getter), mp).String()
	// chain name as read by the client keeper (its receiver is m.k.ClientKeeper, ctx is whatever the handler uses)
	sites := fi.Calls(func(c *ssa.CallCommon) bool { return methodCall(c, cb) })
	if len(sites) == 0 {
		k.r.Violate(id+"/"+cb, "GUARD-DOM", fn, k.w.Pos(fi.Fn.Pos()), "no "+cb+" invocation found in the handler")
		return
	}
	for _, s := range sites {
		ok := fi.HasFact(s.Block(), func(f Fact) bool {
			if f.Op != "==" {
				return false
			}
			for _, pair := range [][2]*Term{{f.L, f.R}, {f.R, f.L}} {
				if pair[0].String() == field && k.isChainName(pair[1]) {
					return true
				}
			}
			return false
		})
		k.r.Check(ok, id+"/"+cb, "GUARD-DOM", fn, fi.InstrPos(s),
			cb+" runs only where "+field+" equals this chain's name",
			cb+" is reachable without the guard '"+field+" == ClientKeeper.GetChainName(ctx)'; facts: "+clip(strings.Join(fi.AtomsAt(s.Block()), "; ")))
	}
}

// isChainName recognises ClientKeeper.GetChainName(ctx): either the (interface) call or
// its inlined store read of the chain-name key.
func (k *K) isChainName(t *Term) bool {
	if t == nil {
		return false
	}
	if (t.Op == "invoke" || t.Op == "call") && strings.HasSuffix(t.Name, "GetChainName") {
		return true
	}
	if t.Op == "invoke" && t.Name == "Get" && len(t.Args) == 2 {
		want := k.w.TermOfCall(k.w.Method(pClientKeeper, "Keeper", "GetChainName"), P(0), P(1))
		if want.Op == "invoke" && want.Name == "Get" && len(want.Args) == 2 {
			return want.Args[1].String() == t.Args[1].String()
		}
	}
	return false
}

// cleanPointWrittenRule: an entry that deletes receipts/acks up to N sets the clean point
// to N (same pair) on every success path.
func (k *K) cleanPointWrittenRule(id, name string) {
	fi := k.method(pPacketKeeper, "Keeper", name)
	if fi == nil {
		return
	}
	fn := fnShort(fi)
	dels := append(k.callsWithEffect(fi, "Delete:receipts"), k.callsWithEffect(fi, "Delete:acks")...)
	sets := k.callsWithEffect(fi, "Set:clean")
	if len(dels) == 0 {
		k.r.Info(id+"/"+name, "MUST-PASS", fn, k.w.Pos(fi.Fn.Pos()), "entry deletes no receipts/acks")
		return
	}
	isSet := func(in ssa.Instruction) bool {
		for _, s := range sets {
			if ssa.Instruction(s) == in {
				return true
			}
		}
		return false
	}
	for _, s := range returnSites(fi, "") {
		path := fi.PathAvoiding(s.Instr, isSet)
		k.r.Check(len(sets) > 0 && path == nil, id+"/"+name+"."+s.What, "MUST-PASS", fn, fi.InstrPos(s.Instr),
			"every success path writes the clean point", "success return reachable without writing the clean point: "+fi.DescribePath(path))
	}
	// the pair and sequence written are the ones the deletions used
	for _, s := range sets {
		a := termsOf(fi, CallArgs(s.Common()))
		for _, d := range dels {
			b := termsOf(fi, CallArgs(d.Common()))
			same := len(a) >= 4 && len(b) >= 4 && a[1] == b[1] && a[2] == b[2] && a[3] == b[3]
			k.r.Check(same, id+"/"+name+".same-range", "BIND", fn, fi.InstrPos(s),
				"clean point written for the same (source,dest,sequence) the deletion used",
				fmt.Sprintf("clean point written for (%s) but deletion ran for (%s)", strings.Join(a[1:], ","), strings.Join(b[1:], ",")))
		}
	}
}
