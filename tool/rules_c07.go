package main

import (
	"fmt"
	"strings"

	"golang.org/x/tools/go/ssa"
)

func init() {
	register("C07", propMeta{
		Explanation: "Decides, on every path of the Tendermint client update: CheckHeaderAndUpdateState fetches the trusted consensus state from the given store at header.TrustedHeight and every store write (metadata, pruning deletes) and the success return are dominated by the nil-error edges of that lookup and of checkValidity(clientState, thatConsensusState, header, ctx.BlockTime()); checkValidity succeeds only past checkTrustedHeader (bytes.Equal(consState.NextValidatorsHash, hash of the validator set decoded from header.TrustedValidators)), past 'header revision == trusted height revision', past '!(header height <= trusted height)' and past the nil-error edge of cometbft light.Verify, whose arguments are bound: trusted header {Height: trusted revision height, Time: consState.Timestamp, NextValidatorsHash: consState.NextValidatorsHash}, trusted validators = the decoded header.TrustedValidators, untrusted header/validators = the decoded header.SignedHeader/ValidatorSet, trusting period, clock drift and trust level of THIS client state, now = the time parameter; ClientKeeper.UpdateClient requires Status == Active and writes client/consensus state only after CheckHeaderAndUpdateState succeeded, storing the returned consensus state under header.GetHeight() and the returned client state on every accepting path (no success path around the two setters); the consensus state built by update() is {header time, header app hash, header next-validators hash}; the only write to LatestHeight is guarded by newHeight.GT(LatestHeight). NOT decided: the threshold arithmetic inside cometbft (trusted), boundary values, the 'if' direction (every valid header is accepted).",
		Assumptions: []string{"cometbft light.Verify implements the light-client rule for the arguments it is given"},
		Trusted:     commonTrusted,
	}, ruleC07)
}

func kvOf(t *Term, name string) string {
	out := ""
	t.Walk(func(x *Term) {
		if x.Op == "kv" && x.Name == name && out == "" {
			out = x.Args[0].String()
		}
	})
	return out
}

func ruleC07(w *World, r *Report) {
	k := newK(w, r)
	// ---- checkValidity
	if fi := k.function(pTM, "checkValidity"); fi != nil {
		fn := fnShort(fi)
		cs, cons, hdr, now := P(0), P(1), P(2), P(3)
		site := w.Pos(fi.Fn.Pos())
		// trusted header check
		cth := callsNamed(fi, "checkTrustedHeader")
		var cthOK []*ssa.Call
		for _, b := range fi.Fn.Blocks {
			for _, in := range b.Instrs {
				if c, ok := in.(*ssa.Call); ok {
					if f := c.Call.StaticCallee(); f != nil && f.Name() == "checkTrustedHeader" {
						a := termsOf(fi, c.Call.Args)
						if len(a) == 2 && a[0] == hdr.String() && a[1] == cons.String() {
							cthOK = append(cthOK, c)
						}
					}
				}
			}
		}
		_ = cth
		okc, ret := k.successPassesCallAny(fi, cthOK)
		r.Check(len(cthOK) > 0 && okc, "C07.valhash/call", "MUST-PASS", fn, site, "success passes checkTrustedHeader(header, consState)", "checkValidity can succeed without checkTrustedHeader(header, trusted consensus state) — offending return at "+retPos(fi, ret))
		// revision and height ordering
		hh := "lit:types.Height{"
		ok1, ret1 := k.successRequires(fi, func(f Fact) bool {
			if f.Op != "==" {
				return false
			}
			a, b := f.L.String(), f.R.String()
			tr := FieldT(FieldT(hdr, "TrustedHeight"), "RevisionNumber").String()
			return (a == tr && strings.Contains(b, "GetRevisionNumber()") && strings.Contains(b, hh)) || (b == tr && strings.Contains(a, "GetRevisionNumber()") && strings.Contains(a, hh))
		}, 0)
		r.Check(ok1, "C07.revision", "MUST-PASS", fn, site, "success requires header revision == trusted height revision", "checkValidity can succeed without 'revision of the header height == revision of the trusted height' — offending return at "+retPos(fi, ret1))
		ok2, ret2 := k.successRequires(fi, func(f Fact) bool {
			t := f.L
			return f.Op == "false" && t.Op == "invoke" && t.Name == "LTE" && strings.HasPrefix(t.Args[0].String(), hh) && t.Args[1].String() == FieldT(hdr, "TrustedHeight").String()
		}, 0)
		r.Check(ok2, "C07.newer", "MUST-PASS", fn, site, "success requires !(header height <= trusted height)", "checkValidity can succeed without 'header height > trusted height' — offending return at "+retPos(fi, ret2))
		// light.Verify
		var verifies []*ssa.Call
		for _, b := range fi.Fn.Blocks {
			for _, in := range b.Instrs {
				if c, ok := in.(*ssa.Call); ok {
					if f := c.Call.StaticCallee(); f != nil && funcName(f) == "github.com/cometbft/cometbft/light.Verify" {
						verifies = append(verifies, c)
					}
				}
			}
		}
		ok3, ret3 := k.successPassesCallAny(fi, verifies)
		r.Check(len(verifies) == 1 && ok3, "C07.verify/pass", "MUST-PASS", fn, site, "success passes light.Verify == nil", fmt.Sprintf("checkValidity has %d light.Verify calls / a success path avoids it — offending return at %s", len(verifies), retPos(fi, ret3)))
		for _, v := range verifies {
			a := v.Call.Args
			if len(a) < 8 {
				r.Undecided("C07.verify.bind/arity", "BIND", fn, fi.InstrPos(v), "unexpected light.Verify arity")
				continue
			}
			vs := fi.InstrPos(v)
			th := fi.T.Of(a[0])
			chk := func(name, got, want string) {
				r.Check(got == want, "C07.verify.bind/"+name, "BIND", fn, vs, name+" = "+clip(got), "light.Verify argument "+name+" is "+clip(got)+", expected "+want)
			}
			chk("trusted.Time", kvOf(th, "Time"), FieldT(cons, "Timestamp").String())
			chk("trusted.NextValidatorsHash", kvOf(th, "NextValidatorsHash"), FieldT(cons, "NextValidatorsHash").String())
			chk("trusted.Height", kvOf(th, "Height"), "conv:int64("+FieldT(FieldT(hdr, "TrustedHeight"), "RevisionHeight").String()+")")
			chk("trustedVals", fi.T.Of(a[1]).String(), "github.com/cometbft/cometbft/types.ValidatorSetFromProto("+FieldT(hdr, "TrustedValidators").String()+")#0")
			chk("untrustedHeader", fi.T.Of(a[2]).String(), "github.com/cometbft/cometbft/types.SignedHeaderFromProto("+FieldT(hdr, "SignedHeader").String()+")#0")
			chk("untrustedVals", fi.T.Of(a[3]).String(), "github.com/cometbft/cometbft/types.ValidatorSetFromProto("+FieldT(hdr, "ValidatorSet").String()+")#0")
			chk("trustingPeriod", fi.T.Of(a[4]).String(), FieldT(cs, "TrustingPeriod").String())
			chk("now", fi.T.Of(a[5]).String(), now.String())
			chk("maxClockDrift", fi.T.Of(a[6]).String(), FieldT(cs, "MaxClockDrift").String())
			tl := fi.T.Of(a[7]).String()
			wantTL := w.TermOfCall(w.Method(pTM, "Fraction", "ToTendermint"), FieldT(cs, "TrustLevel")).String()
			chk("trustLevel", tl, wantTL)
		}
	}
	// ---- checkTrustedHeader
	if fi := k.function(pTM, "checkTrustedHeader"); fi != nil {
		hdr, cons := P(0), P(1)
		ok, ret := k.successRequires(fi, func(f Fact) bool {
			if f.Op != "true" || f.L.Op != "call" || f.L.Name != "bytes.Equal" {
				return false
			}
			a, b := f.L.Args[0].String(), f.L.Args[1].String()
			nvh := FieldT(cons, "NextValidatorsHash").String()
			hash := "(github.com/cometbft/cometbft/types.ValidatorSet).Hash(github.com/cometbft/cometbft/types.ValidatorSetFromProto(" + FieldT(hdr, "TrustedValidators").String() + ")#0)"
			return (a == nvh && b == hash) || (b == nvh && a == hash)
		}, 0)
		r.Check(ok, "C07.valhash/equal", "MUST-PASS", fnShort(fi), w.Pos(fi.Fn.Pos()), "success requires consState.NextValidatorsHash == hash(header.TrustedValidators)", "checkTrustedHeader can succeed without 'trusted validators hash to the NextValidatorsHash of the trusted consensus state' — offending return at "+retPos(fi, ret))
	}
	// ---- CheckHeaderAndUpdateState
	if fi := k.method(pTM, "ClientState", "CheckHeaderAndUpdateState"); fi != nil {
		fn := fnShort(fi)
		store := P(3)
		var gcs, cvs []*ssa.Call
		for _, b := range fi.Fn.Blocks {
			for _, in := range b.Instrs {
				c, ok := in.(*ssa.Call)
				if !ok {
					continue
				}
				f := c.Call.StaticCallee()
				if f == nil {
					continue
				}
				switch f.Name() {
				case "GetConsensusState":
					a := termsOf(fi, c.Call.Args)
					if len(a) == 3 && a[0] == store.String() && strings.HasSuffix(a[2], ".TrustedHeight") && strings.Contains(a[2], "assert:*types.Header($4)") {
						gcs = append(gcs, c)
					}
				case "checkValidity":
					cvs = append(cvs, c)
				}
			}
		}
		sites := append(k.EffectSites(fi), returnSites(fi, "")...)
		r.Check(len(gcs) > 0, "C07.trusted/lookup", "BIND", fn, w.Pos(fi.Fn.Pos()), "trusted consensus state fetched from the given store at header.TrustedHeight", "no GetConsensusState(clientStore, cdc, header.TrustedHeight) found")
		k.requireErrNilDominates("C07.trusted.dom", fi, gcs, sites, "GetConsensusState(store, cdc, header.TrustedHeight)")
		k.requireErrNilDominates("C07.validity.dom", fi, cvs, sites, "checkValidity")
		for _, c := range cvs {
			a := termsOf(fi, c.Call.Args)
			if len(a) == 4 && len(gcs) > 0 {
				r.Check(a[1] == fi.T.Of(gcs[0]).String()+"#0", "C07.trusted/bind.consState", "BIND", fn, fi.InstrPos(c), "checkValidity receives the consensus state fetched at the trusted height", "checkValidity receives "+clip(a[1]))
				r.Check(strings.Contains(a[2], "assert:*types.Header($4)"), "C07.trusted/bind.header", "BIND", fn, fi.InstrPos(c), "checkValidity receives the submitted header", "checkValidity receives "+clip(a[2]))
				r.Check(a[3] == "(github.com/cosmos/cosmos-sdk/types.Context).BlockTime($1)", "C07.trusted/bind.now", "BIND", fn, fi.InstrPos(c), "now = ctx.BlockTime()", "the current time passed to checkValidity is "+clip(a[3])+", expected ctx.BlockTime()")
			}
		}
	}
	// ---- update(): stored consensus state and LatestHeight
	if fi := k.function(pTM, "update"); fi != nil {
		fn := fnShort(fi)
		cs, hdr := P(2), P(3)
		for _, rt := range fi.Returns() {
			t := fi.T.Of(RetVal(rt.Instr, 1))
			ts, root, nvh := kvOf(t, "Timestamp"), kvOf(t, "Root"), kvOf(t, "NextValidatorsHash")
			r.Check(strings.Contains(ts, hdr.String()+".SignedHeader.Header.Time"), "C07.store/timestamp", "BIND", fn, fi.InstrPos(rt.Instr), "stored timestamp = header time", "stored consensus timestamp is "+clip(ts))
			r.Check(strings.Contains(root, "GetAppHash("+hdr.String()+".SignedHeader.Header)"), "C07.store/root", "BIND", fn, fi.InstrPos(rt.Instr), "stored root = header app hash", "stored consensus root is "+clip(root))
			r.Check(nvh == hdr.String()+".SignedHeader.Header.NextValidatorsHash", "C07.store/nextvals", "BIND", fn, fi.InstrPos(rt.Instr), "stored next-validators hash = header's", "stored NextValidatorsHash is "+clip(nvh))
		}
		latest := FieldT(cs, "LatestHeight")
		n := 0
		for _, b := range fi.Fn.Blocks {
			for _, in := range b.Instrs {
				st, ok := in.(*ssa.Store)
				if !ok || fi.T.Of(st.Addr).String() != latest.String() {
					continue
				}
				n++
				newH := fi.T.Of(st.Val)
				inner := newH
				if inner.Op == "assert" {
					inner = inner.Args[0]
				}
				want := boolAtom(w.TermOfCall(w.Method(pClientTypes, "Height", "GT"), newH, latest), true).Atom
				r.Check(fi.HasAtom(b, want), "C07.max/guard", "GUARD-DOM", fn, fi.InstrPos(in), "LatestHeight is overwritten only when newHeight.GT(LatestHeight)", "LatestHeight is overwritten without the guard newHeight.GT(clientState.LatestHeight) (full height comparison incl. revision): the latest height could move backwards")
				r.Check(strings.Contains(newH.String(), hdr.String()+".SignedHeader.Header.Height"), "C07.max/value", "BIND", fn, fi.InstrPos(in), "new latest height = header height", "new latest height is "+clip(newH.String()))
			}
		}
		r.Check(n >= 1, "C07.max/exists", "MUST-PASS", fn, w.Pos(fi.Fn.Pos()), "update() advances LatestHeight", "update() never advances LatestHeight")
	}
	// LatestHeight is written nowhere else in the client
	for _, fn := range w.Funcs {
		if fn.Pkg == nil || fn.Pkg.Pkg.Path() != pTM || w.isGenerated(fn) || fn.Name() == "update" || fn.Name() == "NewClientState" {
			continue
		}
		fi := w.FI(fn)
		for _, b := range fn.Blocks {
			for _, in := range b.Instrs {
				if st, ok := in.(*ssa.Store); ok && strings.HasSuffix(fi.T.Of(st.Addr).String(), ".LatestHeight") {
					r.Violate("C07.max/other-writer."+fn.Name(), "WHO-MAY-CALL", funcName(fn), w.Pos(in.Pos()), "LatestHeight is written outside update()")
				}
			}
		}
	}
	// ---- ClientKeeper.UpdateClient
	k.keeperUpdateRule("C07")
	k.tmProcessedTimeRule("C07.processed")
	r.MinInstances("C07.", 40)
}

// successPassesCallAny is successPassesCall that also accepts the error being returned
// through a wrapper on the failure edge (the usual  if err := f(); err != nil { return wrap(err) } ).
func (k *K) successPassesCallAny(fi *FnInfo, calls []*ssa.Call) (bool, *ssa.Return) {
	return k.successPassesCall(fi, calls)
}

// keeperUpdateRule: ClientKeeper.UpdateClient (shared by all client types) verifies the
// submitted header with an Active client and, on acceptance, always stores exactly the
// client state and consensus state that CheckHeaderAndUpdateState returned, the latter
// under (chainName, header.GetHeight()).
func (k *K) keeperUpdateRule(id string) {
	w, r := k.w, k.r
	_ = w
	k.activeGuardRule(id+".active", pClientKeeper, "Keeper", "UpdateClient", []string{"CheckHeaderAndUpdateState"})
	if fi := k.method(pClientKeeper, "Keeper", "UpdateClient"); fi != nil {
		fn := fnShort(fi)
		chus := callsNamed(fi, "CheckHeaderAndUpdateState")
		var sets []Site
		for _, s := range k.EffectSites(fi) {
			if strings.HasPrefix(s.What, "Set:") || s.What == "event" {
				sets = append(sets, s)
			}
		}
		sets = append(sets, returnSites(fi, "")...)
		k.requireErrNilDominates(id+".active.dom", fi, chus, sets, "CheckHeaderAndUpdateState")
		for _, c := range callsNamed(fi, "SetClientConsensusState") {
			a := termsOf(fi, CallArgs(&c.Call))
			if len(a) >= 4 && len(chus) > 0 {
				r.Check(a[1] == P(2).String() && a[2] == P(3).String()+".GetHeight()" && a[3] == fi.T.Of(chus[0]).String()+"#1", id+".store/keeper", "BIND", fn, fi.InstrPos(c),
					"keeper stores the returned consensus state under (chainName, header.GetHeight())", "keeper stores ("+clip(strings.Join(a[1:], ", "))+"); expected (chainName, header.GetHeight(), consensus state returned by CheckHeaderAndUpdateState)")
			}
		}
		for _, c := range callsNamed(fi, "SetClientState") {
			a := termsOf(fi, CallArgs(&c.Call))
			if len(a) >= 3 && len(chus) > 0 {
				r.Check(a[1] == P(2).String() && a[2] == fi.T.Of(chus[0]).String()+"#0", id+".store/keeper.client", "BIND", fn, fi.InstrPos(c), "keeper stores the returned client state for chainName", "keeper stores ("+clip(strings.Join(a[1:], ", "))+")")
			}
		}
		// on acceptance both results are stored: no success path around the two setters
		for _, nm := range []string{"SetClientConsensusState", "SetClientState"} {
			cs := callsNamed(fi, nm)
			isSet := func(in ssa.Instruction) bool {
				for _, c := range cs {
					if in == ssa.Instruction(c) {
						return true
					}
				}
				return false
			}
			ok, site, detail := len(cs) > 0, w.Pos(fi.Fn.Pos()), ""
			for _, rt := range fi.Returns() {
				if rt.Kind == RetFail {
					continue
				}
				if p := fi.PathAvoiding(rt.Instr, isSet); p != nil {
					ok, site, detail = false, fi.InstrPos(rt.Instr), " (path "+fi.DescribePath(p)+")"
				}
			}
			r.Check(ok, id+".store/keeper.always."+nm, "MUST-PASS", fn, site, "every accepted update passes "+nm, "an update can be accepted (nil error) without "+nm+detail+": the stored state is not the one the accepted header defines")
		}
		for _, c := range chus {
			a := termsOf(fi, c.Call.Args)
			r.Check(len(a) >= 4 && a[3] == P(3).String(), id+".active/header", "BIND", fn, fi.InstrPos(c), "the submitted header is verified", "CheckHeaderAndUpdateState receives "+clip(strings.Join(a, ", ")))
		}
	}
}
