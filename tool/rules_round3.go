package main

import (
	"go/types"
	"strings"

	"golang.org/x/tools/go/ssa"
)

// Shared rules added after the third round of seeded changes.

// routingStoreRule: an accepted SetRoutingRules replaces the stored whitelist: every success
// path writes the routing-rules key (with the submitted list). A success path that writes
// nothing (e.g. an early return for an empty list) leaves a revoked whitelist in force.
func (k *K) routingStoreRule(id string) {
	fi := k.method(pRoutingKeeper, "Keeper", "SetRoutingRules")
	if fi == nil {
		return
	}
	fn := fnShort(fi)
	var sets []ssa.Instruction
	for _, sc := range k.scopes(fi, 1) {
		for _, op := range k.cg.Ops(sc.Fi.Fn) {
			if op.Op != "Set" {
				continue
			}
			if sc.Outer != nil {
				sets = append(sets, sc.Outer)
			} else {
				sets = append(sets, op.Instr)
			}
		}
	}
	isSet := func(in ssa.Instruction) bool {
		for _, s := range sets {
			if s == in {
				return true
			}
		}
		return false
	}
	ok, site, detail := len(sets) > 0, k.w.Pos(fi.Fn.Pos()), ""
	for _, rt := range fi.Returns() {
		if rt.Kind == RetFail {
			continue
		}
		if p := fi.PathAvoiding(rt.Instr, isSet); p != nil {
			ok, site, detail = false, fi.InstrPos(rt.Instr), " (path "+fi.DescribePath(p)+")"
		}
	}
	k.r.Check(ok, id+"/always", "MUST-PASS", fn, site, "every accepted SetRoutingRules writes the rule table", "SetRoutingRules can succeed without writing the rule table"+detail+": the previous whitelist stays in force although the new one was accepted")
}

// relayerImportRule: the relayer registry survives export/import entry by entry. Each
// genesis entry {chain, relayers} is restored with one RegisterRelayers(chain, relayers)
// call carrying the entry's whole list (RegisterRelayers replaces the list of a chain, so a
// call per address keeps only the last one).
func (k *K) relayerImportRule(id string) {
	fi := k.function(pClient, "InitGenesis")
	if fi == nil {
		return
	}
	fn := fnShort(fi)
	n := 0
	for _, b := range fi.Fn.Blocks {
		for _, in := range b.Instrs {
			c, ok := in.(*ssa.Call)
			if !ok {
				continue
			}
			callee := c.Call.StaticCallee()
			if callee == nil || callee.Name() != "RegisterRelayers" {
				continue
			}
			n++
			a := termsOf(fi, c.Call.Args)
			if len(a) < 4 {
				k.r.Undecided(id+"/args", "BIND", fn, fi.InstrPos(c), "unexpected RegisterRelayers arity")
				continue
			}
			chain, list := a[len(a)-2], a[len(a)-1]
			// both come from the same genesis entry: <entry>.ChainName and <entry>.Relayers
			okArgs := strings.HasSuffix(chain, ".ChainName") && strings.HasSuffix(list, ".Relayers") &&
				strings.TrimSuffix(chain, ".ChainName") == strings.TrimSuffix(list, ".Relayers")
			k.r.Check(okArgs, id+"/entry", "BIND", fn, fi.InstrPos(c), "a genesis relayer entry is restored as a whole: RegisterRelayers(entry.ChainName, entry.Relayers)",
				"relayers are restored with RegisterRelayers("+clip(chain)+", "+clip(list)+"): RegisterRelayers replaces the chain's list, so restoring anything but the entry's whole list loses relayers")
		}
	}
	k.r.Check(n > 0, id+"/call", "MUST-PASS", fn, k.w.Pos(fi.Fn.Pos()), "client InitGenesis restores the relayer registry", "client InitGenesis does not call RegisterRelayers")
}

// exportAllRule: an export iterator callback never asks the iterator to stop. The
// iteration helpers of the client and packet keepers and of the light clients stop when the
// callback returns true; a callback that is used to collect genesis state and can return
// true exports only a prefix of the state.
func (k *K) exportAllRule(id string) {
	var roots []*ssa.Function
	add := func(fn *ssa.Function) {
		if fn != nil && fn.Blocks != nil {
			roots = append(roots, fn)
		}
	}
	add(k.w.Func(pCore, "ExportGenesis"))
	for _, ct := range clientTypes {
		add(k.w.Method(ct, "ClientState", "ExportMetadata"))
	}
	seen := map[*ssa.Function]bool{}
	n := 0
	for _, rt := range roots {
		for _, fn := range k.cg.Reachable(rt) {
			if seen[fn] || !k.w.IsProd(fn) {
				continue
			}
			seen[fn] = true
			// closures whose only result is a bool: the "stop" callbacks
			if fn.Parent() == nil || fn.Signature.Results().Len() != 1 || !isBoolType(fn.Signature.Results().At(0).Type()) {
				continue
			}
			// only callbacks created by a function on the export path
			if !seen[fn.Parent()] && !contains(roots, fn.Parent()) {
				continue
			}
			n++
			fi := k.w.FI(fn)
			stops := ""
			for _, r := range fi.Returns() {
				v := fi.T.Of(RetVal(r.Instr, 0)).String()
				if v != "const(false)" {
					stops = v
				}
			}
			name := funcName(fn.Parent()) + strings.TrimPrefix(fn.Name(), fn.Parent().Name())
			k.r.Check(stops == "", id+"/"+name, "MUST-PASS", name, k.w.Pos(fn.Pos()), "export callback always continues the iteration", "an iteration callback on the genesis-export path can return "+clip(stops)+" (stop): only the entries visited before that are exported")
		}
	}
	k.r.Check(n >= 5, id+"/callbacks", "MUST-PASS", "genesis export", "-", "export iteration callbacks found and checked", "too few export iteration callbacks found")
}

func isBoolType(t types.Type) bool {
	b, ok := t.Underlying().(*types.Basic)
	return ok && b.Kind() == types.Bool
}

func contains(fs []*ssa.Function, f *ssa.Function) bool {
	for _, x := range fs {
		if x == f {
			return true
		}
	}
	return false
}
