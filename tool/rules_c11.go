package main

import (
	"fmt"
	"sort"
	"strings"

	"golang.org/x/tools/go/ssa"
)

func init() {
	register("C11", propMeta{
		Explanation: "Decides, on every path: the application callbacks run only on the packet's destination chain (receive) and only on the packet's source chain (acknowledgement), so a relay chain never runs application logic or needs a route; in the relay branch of Keeper.RecvPacket (this chain == packet relay chain) the re-commitment and the send_packet event are dominated by RoutingKeeper.Authenticate(packet source, dest, port) == true and by the destination client being found, and re-commit exactly the verified commitment under the packet's own key; msgServer.RecvPacket turns ErrUnauthorized into a written error acknowledgement and a successful message; every refusal issued after the receipt was written is that sentinel (otherwise the refusal is rolled back and no error acknowledgement can travel back); the relay branch of AcknowledgePacket stores the verified acknowledgement commitment for the next hop under the packet's key after the source client was found; the proving-chain selection in RecvPacket/AcknowledgePacket/WriteAcknowledgement/RecvCleanPacket picks the relay chain only under 'this chain is the endpoint and a relay chain is set'. Also: Authenticate matches a stored rule exactly field-wise (the converter and result-discipline obligations shared with C12), the transfer applications never read the packet's relay-chain field (their effects for a relayed packet are those for a direct one), and no code reachable from a message handler branches the store (the error-acknowledgement path commits receipt and acknowledgement together). NOT decided: end-to-end equality with a direct transfer over three chains as a behaviour.",
		Assumptions: []string{"cosmos-sdk store branching discards writes of failed messages"},
		Trusted:     commonTrusted,
	}, ruleC11)
	register("C13", propMeta{
		Explanation: "Decides the structural core of the property: a packet field that influences dispatch, branching, client selection or store keys in the receive/acknowledge path (msgServer.RecvPacket, msgServer.Acknowledgement, Keeper.RecvPacket, Keeper.AcknowledgePacket, Keeper.WriteAcknowledgement, Keeper.ValidatePacket) must be authenticated, i.e. be bound into the proven key (source, dest, sequence) or into the committed value CommitPacket(packet); additionally ValidatePacket accepts only packets naming this chain as source, destination or relay chain, and the handlers run the application callback on every accepting path of the responsible chain (a missing route is an error, not a silent skip). Fields used but not authenticated are reported per function and field. The structural guards that stand in for the missing authentication are checked too: the verifying client is chosen by one table (relay chain iff this chain is the endpoint and a relay chain is named, else the far end) and is looked up for a chain the packet names, with no fallback to another client. NOT decided: which concrete attack a given unauthenticated field enables.",
		Assumptions: []string{"light-client verification binds exactly key and value (C01/C08)"},
		Trusted:     commonTrusted,
	}, ruleC13)
}

// selectionGate: in fi, the chain term handed to GetClientState for the verifying/target
// client is a phi; its relay-chain edge must be taken only under
// 'chainName == endpoint getter' (when endpoint != "") and 'relay chain is set'.
func (k *K) selectionGate(id string, fi *FnInfo, pk pktTerms, endpoint string) {
	fn := fnShort(fi)
	n := 0
	for _, b := range fi.Fn.Blocks {
		for _, in := range b.Instrs {
			phi, ok := in.(*ssa.Phi)
			if !ok || !isString(phi.Type()) {
				continue
			}
			hasRelay := false
			for _, e := range phi.Edges {
				if fi.T.Of(e).String() == pk.relay {
					hasRelay = true
				}
			}
			if !hasRelay {
				continue
			}
			// only selection phis that reach GetClientState/ClientStore
			used := false
			if refs := phi.Referrers(); refs != nil {
				for _, r := range *refs {
					if ci, ok := r.(ssa.CallInstruction); ok && (methodCall(ci.Common(), "GetClientState") || methodCall(ci.Common(), "ClientStore")) {
						used = true
					}
				}
			}
			if !used {
				continue
			}
			n++
			for i, e := range phi.Edges {
				if fi.T.Of(e).String() != pk.relay {
					continue
				}
				pred := phi.Block().Preds[i]
				relaySet := fi.HasFact(pred, func(f Fact) bool {
					l := "builtin.len(" + pk.relay + ")"
					return (f.Op == "<" && f.L.String() == "const(0)" && f.R.String() == l) ||
						(f.Op == "!=" && (f.L.String() == l || f.R.String() == l) && (f.L.String() == "const(0)" || f.R.String() == "const(0)")) ||
						(f.Op == "!=" && (f.L.String() == pk.relay || f.R.String() == pk.relay) && (f.L.String() == `const("")` || f.R.String() == `const("")`))
				})
				okEnd := endpoint == "" || fi.HasFact(pred, func(f Fact) bool {
					if f.Op != "==" {
						return false
					}
					return (f.L.String() == endpoint && k.isChainName(f.R)) || (f.R.String() == endpoint && k.isChainName(f.L))
				})
				k.r.Check(relaySet && okEnd, id+"/"+fi.Fn.Name(), "GUARD-DOM", fn, fi.InstrPos(phi),
					"relay chain selected only when set"+map[bool]string{true: " and this chain is the endpoint " + endpoint, false: ""}[endpoint != ""],
					fmt.Sprintf("the relay chain is selected as peer without the guards 'relay chain set'=%v, 'this chain == %s'=%v", relaySet, endpoint, okEnd))
			}
		}
	}
	if n == 0 {
		k.r.Violate(id+"/"+fi.Fn.Name(), "GUARD-DOM", fn, k.w.Pos(fi.Fn.Pos()), "no source/dest-or-relay chain selection found (the packet's relay chain is never considered when choosing the peer client)")
	}
}

func ruleC11(w *World, r *Report) {
	k := newK(w, r)
	k.callbackChainRule("C11.cb.recv", "RecvPacket", "OnRecvPacket", "GetDestChain")
	k.callbackChainRule("C11.cb.ack", "Acknowledgement", "OnAcknowledgementPacket", "GetSourceChain")
	k.routeLookupRule("C11.cb.ack.route")

	fi := k.method(pPacketKeeper, "Keeper", "RecvPacket")
	if fi == nil {
		return
	}
	fn := fnShort(fi)
	pkt := paramByType(fi.Fn, "exported.PacketI")
	if r.BrokenIf(pkt == nil, "RecvPacket: packet parameter not identified") {
		return
	}
	pk := ifacePkt(pkt)
	commit := w.TermOfCall(w.Func(pPacketTypes, "CommitPacket"), pkt).String()

	isRelayHere := func(f Fact) bool {
		return f.Op == "==" && ((f.L.String() == pk.relay && k.isChainName(f.R)) || (f.R.String() == pk.relay && k.isChainName(f.L)))
	}
	isAuth := func(f Fact) bool {
		t := f.L
		return f.Op == "true" && t.Op == "invoke" && t.Name == "Authenticate" && len(t.Args) == 5 &&
			t.Args[2].String() == pk.src && t.Args[3].String() == pk.dst && t.Args[4].String() == pk.port
	}
	destFound := func(f Fact) bool {
		t := f.L
		return f.Op == "true" && t.Op == "extract" && t.Name == "1" && t.Args[0].Op == "invoke" && t.Args[0].Name == "GetClientState" &&
			len(t.Args[0].Args) == 3 && t.Args[0].Args[2].String() == pk.dst
	}
	recommits := k.callsWithEffect(fi, "Set:commitments")
	if len(recommits) == 0 {
		r.Violate("C11.relay.auth/none", "MUST-PASS", fn, w.Pos(fi.Fn.Pos()), "RecvPacket never re-commits a relayed packet")
	}
	var relaySites []Site
	for _, s := range recommits {
		relaySites = append(relaySites, Site{s, "recommit"})
	}
	for _, dc := range k.deepCalls(fi, func(c *ssa.CallCommon) bool { return isEmit(c) }, 2) {
		args := dc.Call.Common().Args
		if len(args) > 0 && dc.Fi.T.Of(args[len(args)-1]).Contains(`const("send_packet")`) {
			relaySites = append(relaySites, Site{dc.Outer, "forward-event"})
		}
	}
	for _, s := range relaySites {
		b := s.Instr.Block()
		r.Check(fi.HasFact(b, isRelayHere), "C11.relay.branch/"+s.What, "GUARD-DOM", fn, fi.InstrPos(s.Instr), s.What+" only where this chain is the packet's relay chain", s.What+" is not restricted to 'packet relay chain == this chain'")
		r.Check(fi.HasFact(b, isAuth), "C11.relay.auth/"+s.What, "GUARD-DOM", fn, fi.InstrPos(s.Instr), s.What+" dominated by Authenticate(packet source, dest, port) == true", s.What+" is reachable without a successful whitelist check Authenticate(packet source, packet dest, packet port)")
		r.Check(fi.HasFact(b, destFound), "C11.relay.dest/"+s.What, "GUARD-DOM", fn, fi.InstrPos(s.Instr), s.What+" dominated by 'destination client found'", s.What+" is reachable although the destination chain's client was not found")
	}
	for _, s := range recommits {
		a := termsOf(fi, CallArgs(s.Common()))
		if len(a) >= 5 {
			r.Check(a[4] == commit, "C11.relay.same/value", "BIND", fn, fi.InstrPos(s), "re-committed value is the verified commitment", "re-committed value is "+clip(a[4])+", expected the verified "+commit)
		}
		sh := k.KeyShapesAt(fi, s, "commitments", "Set")
		want := wantShape("commitments", []string{pk.src, pk.dst, pk.seq})
		r.Check(len(sh) == 1 && sh[0] == want, "C11.relay.same/key", "KEY-SHAPE", fn, fi.InstrPos(s), "re-committed under "+want, fmt.Sprintf("re-committed under %v", sh))
	}
	// whitelist refusal exists and is the sentinel
	unauth := 0
	receiptSets := k.callsWithEffect(fi, "Set:receipts")
	afterReceipt := func(in ssa.Instruction) bool {
		return fi.PathAvoiding(in, func(x ssa.Instruction) bool {
			for _, s := range receiptSets {
				if ssa.Instruction(s) == x {
					return true
				}
			}
			return false
		}) == nil && len(receiptSets) > 0
	}
	ei := fi.errIndex()
	for _, rt := range fi.Returns() {
		if rt.Kind != RetFail {
			continue
		}
		t := fi.T.Of(RetVal(rt.Instr, ei)).String()
		if t == errUnauthorized {
			unauth++
			r.Check(fi.HasFact(rt.Instr.Block(), func(f Fact) bool { return f.Op == "false" && isAuth(Fact{Op: "true", L: f.L}) }), "C11.refusal/whitelist", "GUARD-DOM", fn, fi.InstrPos(rt.Instr),
				"ErrUnauthorized is returned exactly when Authenticate(packet source, dest, port) is false", "ErrUnauthorized is returned on a path not guarded by a failed Authenticate(packet source, dest, port)")
			continue
		}
		if afterReceipt(rt.Instr) {
			r.Violate("C11.refusal/after-receipt", "MUST-PASS", fn, fi.InstrPos(rt.Instr),
				"after the receipt has been written RecvPacket fails with "+clip(t)+", which msgServer does not convert into an error acknowledgement: the message is rolled back, no error acknowledgement travels back to the source and the packet stays pending")
		}
	}
	r.Check(unauth > 0, "C11.refusal/exists", "MUST-PASS", fn, w.Pos(fi.Fn.Pos()), "a whitelist refusal path exists", "RecvPacket has no ErrUnauthorized refusal path")

	k.unauthAckRule("C11.unauth")

	// relay branch of AcknowledgePacket
	if fa := k.method(pPacketKeeper, "Keeper", "AcknowledgePacket"); fa != nil {
		if p := paramByType(fa.Fn, "exported.PacketI"); p != nil {
			pa := ifacePkt(p)
			relayHere := func(f Fact) bool {
				return f.Op == "==" && ((f.L.String() == pa.relay && k.isChainName(f.R)) || (f.R.String() == pa.relay && k.isChainName(f.L)))
			}
			srcFound := func(f Fact) bool {
				t := f.L
				return f.Op == "true" && t.Op == "extract" && t.Name == "1" && t.Args[0].Op == "invoke" && t.Args[0].Name == "GetClientState" &&
					len(t.Args[0].Args) == 3 && t.Args[0].Args[2].String() == pa.src
			}
			sets := k.callsWithEffect(fa, "Set:acks")
			if len(sets) == 0 {
				r.Violate("C11.ack.relay/none", "MUST-PASS", fnShort(fa), w.Pos(fa.Fn.Pos()), "AcknowledgePacket never stores the acknowledgement for the next hop on a relay chain")
			}
			for _, s := range sets {
				r.Check(fa.HasFact(s.Block(), relayHere), "C11.ack.relay/branch", "GUARD-DOM", fnShort(fa), fa.InstrPos(s), "ack forwarded only where this chain is the relay chain", "ack forwarding is not restricted to 'packet relay chain == this chain'")
				r.Check(fa.HasFact(s.Block(), srcFound), "C11.ack.relay/source-client", "GUARD-DOM", fnShort(fa), fa.InstrPos(s), "ack forwarded only when the source chain's client exists", "ack forwarded although the source chain's client was not found")
			}
			// on a relay chain every success path forwards the ack
			for _, st := range returnSites(fa, "") {
				path := fa.PathAvoidingX(st.Instr, func(x ssa.Instruction) bool {
					for _, s := range sets {
						if ssa.Instruction(s) == x {
							return true
						}
					}
					return false
				}, func(f Fact) bool {
					return f.Op == "!=" && ((f.L.String() == pa.relay && k.isChainName(f.R)) || (f.R.String() == pa.relay && k.isChainName(f.L)))
				})
				r.Check(path == nil, "C11.ack.relay/pass."+st.What, "MUST-PASS", fnShort(fa), fa.InstrPos(st.Instr), "on the relay chain every success path stores the ack for the next hop", "success reachable on the relay chain without storing the ack for the next hop: "+fa.DescribePath(path))
			}
			k.selectionGate("C11.from", fa, pa, pa.src)
		}
	}
	// on a relay chain every accepting path of RecvPacket forwards or refuses
	for _, st := range returnSites(fi, "") {
		path := fi.PathAvoidingX(st.Instr, func(x ssa.Instruction) bool {
			for _, s := range recommits {
				if ssa.Instruction(s) == x {
					return true
				}
			}
			return false
		}, func(f Fact) bool {
			return f.Op == "!=" && ((f.L.String() == pk.relay && k.isChainName(f.R)) || (f.R.String() == pk.relay && k.isChainName(f.L)))
		})
		r.Check(path == nil, "C11.relay.forward/"+st.What, "MUST-PASS", fn, fi.InstrPos(st.Instr), "on the relay chain every success path re-commits the packet", "success reachable on the relay chain without re-committing the packet: "+fi.DescribePath(path))
	}
	k.selectionGate("C11.from", fi, pk, pk.dst)
	if fw := k.method(pPacketKeeper, "Keeper", "WriteAcknowledgement"); fw != nil {
		if p := paramByType(fw.Fn, "exported.PacketI"); p != nil {
			pw := ifacePkt(p)
			k.selectionGate("C11.from", fw, pw, pw.dst)
		}
	}
	if fc := k.method(pPacketKeeper, "Keeper", "RecvCleanPacket"); fc != nil {
		if p := paramByType(fc.Fn, "exported.CleanPacketI"); p != nil {
			pc := ifacePkt(p)
			k.selectionGate("C11.from", fc, pc, pc.dst)
		}
	}
	if fs := k.method(pPacketKeeper, "Keeper", "SendPacket"); fs != nil {
		if p := paramByType(fs.Fn, "exported.PacketI"); p != nil {
			k.selectionGate("C11.from", fs, ifacePkt(p), "")
		}
	}
	// the whitelist is enforced only if a rule authorises exactly the (source, dest, port)
	// triples it names: the matching semantics of Authenticate (shared with C12)
	k.authenticateRule("C11.whitelist.")
	// the applications treat a relayed packet like a direct one; no partial commits in the handlers
	k.routingStoreRule("C11.whitelist.store")
	k.appNoRelayRule("C11.app.norelay")
	k.ctxRule("C11.ctx")
	r.MinInstances("C11.", 25)
}

// unauthAckRule: msgServer.RecvPacket converts ErrUnauthorized into an error ack + success.
func (k *K) unauthAckRule(id string) {
	ms := k.method(pCoreKeeper, "msgServer", "RecvPacket")
	if ms == nil {
		return
	}
	fn := fnShort(ms)
	recvs := callsNamed(ms, "RecvPacket")
	if len(recvs) == 0 {
		return
	}
	unauthAtom := atomEQ(ms.ErrTermOfCall(recvs[0]), errUnauthorized)
	var writes []*ssa.Call
	for _, c := range callsNamed(ms, "WriteAcknowledgement") {
		if ms.HasAtom(c.Block(), unauthAtom) {
			writes = append(writes, c)
		}
	}
	n := 0
	for _, st := range returnSites(ms, "") {
		if !ms.HasAtom(st.Instr.Block(), unauthAtom) {
			continue
		}
		n++
		ok := false
		for _, c := range writes {
			if ms.ErrNilDominates(c, st.Instr.Block()) {
				ok = true
			}
		}
		k.r.Check(ok, id+"/ack-written", "MUST-PASS", fn, ms.InstrPos(st.Instr), "the refusal is acknowledged with a written error ack before the message succeeds", "the ErrUnauthorized case returns success without a successfully written acknowledgement")
	}
	k.r.Check(n > 0, id+"/success", "MUST-PASS", fn, k.w.Pos(ms.Fn.Pos()), "ErrUnauthorized is converted into a successful message", "no successful return handles the ErrUnauthorized refusal: a whitelist refusal would be rolled back and never acknowledged")
	for _, c := range writes {
		a := termsOf(ms, CallArgs(&c.Call))
		if len(a) >= 3 {
			k.r.Check(strings.Contains(a[2], "Acknowledgement_Error"), id+"/is-error-ack", "BIND", fn, ms.InstrPos(c), "the refusal is recorded as an error acknowledgement", "the refusal is recorded as "+clip(a[2]))
		}
	}
}

// routeLookupRule: a missing route may fail the Acknowledgement message only on the
// packet's source chain (a relay chain has no application bound to the port).
func (k *K) routeLookupRule(id string) {
	fi := k.method(pCoreKeeper, "msgServer", "Acknowledgement")
	if fi == nil {
		return
	}
	fn := fnShort(fi)
	msg := paramByType(fi.Fn, "MsgAcknowledgement")
	if msg == nil {
		return
	}
	srcField := k.w.TermOfCall(k.w.Method(pPacketTypes, "Packet", "GetSourceChain"), FieldT(msg, "Packet")).String()
	for _, rt := range fi.Returns() {
		if rt.Kind != RetFail {
			continue
		}
		b := rt.Instr.Block()
		notFound := fi.HasFact(b, func(f Fact) bool {
			return f.Op == "false" && f.L.Op == "extract" && f.L.Args[0].Op == "call" && strings.HasSuffix(f.L.Args[0].Name, "Router).GetRoute")
		})
		if !notFound {
			continue
		}
		ok := fi.HasFact(b, func(f Fact) bool {
			return f.Op == "==" && ((f.L.String() == srcField && k.isChainName(f.R)) || (f.R.String() == srcField && k.isChainName(f.L)))
		})
		k.r.Check(ok, id, "GUARD-DOM", fn, fi.InstrPos(rt.Instr), "route-not-found fails the ack only on the source chain",
			"an acknowledgement passing through a relay chain fails with 'route not found' when the relay chain has no application on the packet's port, so the (error) acknowledgement cannot travel back to the source")
	}
}

// ---------------------------------------------------------------------------------- C13

func ruleC13(w *World, r *Report) {
	k := newK(w, r)
	// AUTH: fields bound into the proven key and into the committed value
	auth := map[string]bool{}
	if fp := k.function(pHost, "PacketCommitmentPath"); fp != nil {
		// (source, dest, sequence) are the key's holes (checked in C01.key.cover)
		sh := w.ShapeOf(w.TermOfCall(fp.Fn, P(0), P(1), P(2)))
		hs := sh.HoleTerms()
		names := []string{"GetSourceChain", "GetDestChain", "GetSequence"}
		for i, h := range hs {
			if i < 3 && h == P(i).String() {
				auth[names[i]] = true
			}
		}
	}
	getters := []string{"GetSourceChain", "GetDestChain", "GetSequence", "GetRelayChain", "GetPort", "GetData"}
	if fc := k.function(pPacketTypes, "CommitPacket"); fc != nil {
		ct := w.TermOfCall(fc.Fn, P(0))
		for _, g := range getters {
			if ct.Contains(Invoke(P(0), g).String()) {
				auth[g] = true
			}
		}
	}
	var authList []string
	for g := range auth {
		authList = append(authList, g)
	}
	sort.Strings(authList)
	r.Notes = append(r.Notes, "authenticated packet fields: "+strings.Join(authList, ", "))

	type target struct {
		pkg, typ, name string
		pkt            func(fi *FnInfo) (map[string]string, bool)
	}
	ifaceG := func(fi *FnInfo) (map[string]string, bool) {
		p := paramByType(fi.Fn, "exported.PacketI")
		if p == nil {
			return nil, false
		}
		m := map[string]string{}
		for _, g := range getters {
			m[g] = Invoke(p, g).String()
		}
		return m, true
	}
	msgG := func(fi *FnInfo) (map[string]string, bool) {
		var msg *Term
		for i, p := range fi.Fn.Params {
			if strings.Contains(typeString(p.Type()), "04-packet/types.Msg") {
				msg = P(i)
			}
		}
		if msg == nil {
			return nil, false
		}
		m := map[string]string{}
		for _, g := range getters {
			m[g] = w.TermOfCall(w.Method(pPacketTypes, "Packet", g), FieldT(msg, "Packet")).String()
		}
		return m, true
	}
	targets := []target{
		{pCoreKeeper, "msgServer", "RecvPacket", msgG},
		{pCoreKeeper, "msgServer", "Acknowledgement", msgG},
		{pPacketKeeper, "Keeper", "RecvPacket", ifaceG},
		{pPacketKeeper, "Keeper", "AcknowledgePacket", ifaceG},
		{pPacketKeeper, "Keeper", "WriteAcknowledgement", ifaceG},
		{pPacketKeeper, "Keeper", "ValidatePacket", ifaceG},
	}
	for _, t := range targets {
		fi := k.method(t.pkg, t.typ, t.name)
		if fi == nil {
			continue
		}
		gm, ok := t.pkt(fi)
		if r.BrokenIf(!ok, "%s: packet not identified", fnShort(fi)) {
			continue
		}
		// decision uses: branch conditions, route lookups, client/store selection, Authenticate args
		uses := map[string]string{} // getter -> how
		note := func(t *Term, how string, pos string) {
			for g, gt := range gm {
				if t.Contains(gt) {
					if _, seen := uses[g]; !seen {
						uses[g] = how + " at " + pos
					}
				}
			}
		}
		for _, f := range fi.facts {
			note(f.Cond, "branch condition", fi.InstrPos(f.If))
		}
		for _, b := range fi.Fn.Blocks {
			for _, in := range b.Instrs {
				ci, ok := in.(ssa.CallInstruction)
				if !ok {
					continue
				}
				c := ci.Common()
				switch {
				case methodCall(c, "GetRoute"):
					for _, a := range CallArgs(c) {
						note(fi.T.Of(a), "application dispatch (GetRoute)", fi.InstrPos(in))
					}
				case methodCall(c, "GetClientState"), methodCall(c, "ClientStore"):
					for _, a := range CallArgs(c) {
						note(fi.T.Of(a), "peer client selection", fi.InstrPos(in))
					}
				case methodCall(c, "Authenticate"):
					for _, a := range CallArgs(c) {
						note(fi.T.Of(a), "whitelist decision (Authenticate)", fi.InstrPos(in))
					}
				}
			}
		}
		for _, g := range getters {
			how, used := uses[g]
			if !used {
				continue
			}
			id := fmt.Sprintf("C13.cover/%s.%s:%s", t.typ, t.name, g)
			r.Check(auth[g], id, "BIND", fnShort(fi), strings.TrimPrefix(how[strings.LastIndex(how, " at ")+4:], ""),
				g+" is used ("+how+") and is authenticated by the commitment key/value",
				"packet field "+g+" decides "+how+" but is bound neither into the proven key (source,dest,sequence) nor into CommitPacket's value: a relayer can alter it in a message that still verifies")
		}
	}

	// ValidatePacket: this chain must be source, destination or relay chain of the packet
	if fv := k.method(pPacketKeeper, "Keeper", "ValidatePacket"); fv != nil {
		if p := paramByType(fv.Fn, "exported.PacketI"); p != nil {
			pk := ifacePkt(p)
			for _, st := range returnSites(fv, "") {
				isParty := func(f Fact) bool {
					if f.Op != "==" {
						return false
					}
					for _, g := range []string{pk.src, pk.dst, pk.relay} {
						if (f.L.String() == g && k.isChainName(f.R)) || (f.R.String() == g && k.isChainName(f.L)) {
							return true
						}
					}
					return false
				}
				// the test may be written in line or as a predicate helper ("involvesChain(packet, name)")
				path := fv.PathAvoidingX(st.Instr, nil, func(f Fact) bool { return fv.edgeImplies(f, isParty) })
				r.Check(path == nil, "C13.party/ValidatePacket", "MUST-PASS", fnShort(fv), fv.InstrPos(st.Instr),
					"a packet is accepted only if this chain is its source, destination or relay chain",
					"ValidatePacket accepts a packet for which this chain is neither source, destination nor relay chain: "+fv.DescribePath(path))
			}
		}
	}
	// handlers: accepting paths of the responsible chain run the callback
	k.callbackMandatory("C13.dispatch", "RecvPacket", "OnRecvPacket", "GetDestChain", true)
	k.callbackMandatory("C13.dispatch", "Acknowledgement", "OnAcknowledgementPacket", "GetSourceChain", false)
	// the relay chain a message names decides the verifying client by one table, without fallback
	k.fromTableRule("C13.from")
	r.MinInstances("C13.", 10)
}

// callbackMandatory: every success path of the handler runs the application callback,
// unless it crosses the edge 'this chain is not the responsible endpoint' (or, for
// receive, the ErrUnauthorized conversion).
func (k *K) callbackMandatory(id, handler, cb, getter string, allowUnauth bool) {
	fi := k.method(pCoreKeeper, "msgServer", handler)
	if fi == nil {
		return
	}
	fn := fnShort(fi)
	var msg *Term
	for i, p := range fi.Fn.Params {
		if strings.Contains(typeString(p.Type()), "04-packet/types.Msg") {
			msg = P(i)
		}
	}
	if msg == nil {
		return
	}
	field := k.w.TermOfCall(k.w.Method(pPacketTypes, "Packet", getter), FieldT(msg, "Packet")).String()
	cbs := fi.Calls(func(c *ssa.CallCommon) bool { return methodCall(c, cb) })
	unauthAtom := ""
	if allowUnauth {
		if recvs := callsNamed(fi, "RecvPacket"); len(recvs) > 0 {
			unauthAtom = atomEQ(fi.ErrTermOfCall(recvs[0]), errUnauthorized)
		}
	}
	for _, st := range returnSites(fi, "") {
		path := fi.PathAvoidingX(st.Instr, func(x ssa.Instruction) bool {
			for _, c := range cbs {
				if ssa.Instruction(c) == x {
					return true
				}
			}
			return false
		}, func(f Fact) bool {
			if unauthAtom != "" && f.Atom == unauthAtom {
				return true
			}
			return f.Op == "!=" && ((f.L.String() == field && k.isChainName(f.R)) || (f.R.String() == field && k.isChainName(f.L)))
		})
		k.r.Check(path == nil, id+"/"+handler+"."+st.What, "MUST-PASS", fn, fi.InstrPos(st.Instr),
			"every accepting path on the responsible chain runs "+cb,
			"the message can succeed on the responsible chain without running "+cb+" (e.g. a missing route for the submitted port is skipped instead of rejected): "+fi.DescribePath(path))
	}
}
