package main

import (
	"fmt"

	"golang.org/x/tools/go/ssa"
)

// ackOnceRule: an acknowledgement (and therefore a refund) is processed at most once.
// Keeper.AcknowledgePacket acts only while the stored commitment of the packet's own
// (source, dest, sequence) equals CommitPacket(packet), and every success path deletes
// exactly that commitment. This is the part of C03 that the token properties (C04 escrow
// release, C05 conservation, C06 exact refund) rest on; it is evaluated under their ids so
// that each of those checks reports a change that lets an acknowledgement be replayed.
func (k *K) ackOnceRule(id string) {
	w, r := k.w, k.r
	fi := k.method(pPacketKeeper, "Keeper", "AcknowledgePacket")
	if fi == nil {
		return
	}
	fn := fnShort(fi)
	pkt := paramByType(fi.Fn, "exported.PacketI")
	if r.BrokenIf(pkt == nil, "AcknowledgePacket: packet parameter not identified") {
		return
	}
	pk := ifacePkt(pkt)
	sites := append(k.EffectSites(fi), returnSites(fi, "")...)
	commit := w.TermOfCall(w.Func(pPacketTypes, "CommitPacket"), pkt).String()
	eqPred := func(f Fact) bool {
		if f.Op != "true" || f.L.Op != "call" || f.L.Name != "bytes.Equal" || len(f.L.Args) != 2 {
			return false
		}
		a, b := f.L.Args[0], f.L.Args[1]
		for _, pr := range [][2]*Term{{a, b}, {b, a}} {
			if pr[0].String() == commit && k.isKeyRead(pr[1], "commitments", []string{pk.src, pk.dst, pk.seq}) {
				return true
			}
		}
		return false
	}
	for _, s := range sites {
		r.Check(fi.HasFact(s.Instr.Block(), eqPred), id+".commit.eq/"+s.What, "GUARD-DOM", fn, fi.InstrPos(s.Instr),
			s.What+" dominated by storedCommitment(src,dst,seq) == CommitPacket(packet)",
			s.What+" is reachable without the check that the stored commitment of (packet source, dest, sequence) equals CommitPacket(packet)")
	}
	dels := k.callsWithEffect(fi, "Delete:commitments")
	wantKey := fmt.Sprintf("%q<str %s>%q<str %s>%q<dec %s>", "commitments/", pk.src, "/", pk.dst, "/sequences/", pk.seq)
	isDel := func(in ssa.Instruction) bool {
		for _, d := range dels {
			if ssa.Instruction(d) == in {
				return true
			}
		}
		return false
	}
	for _, s := range returnSites(fi, "") {
		path := fi.PathAvoiding(s.Instr, isDel)
		r.Check(len(dels) > 0 && path == nil, id+".delete/"+s.What, "MUST-PASS", fn, fi.InstrPos(s.Instr),
			"every success path deletes the packet commitment", "success return reachable without deleting the packet commitment (the acknowledgement, and the refund it triggers, can be replayed): "+fi.DescribePath(path))
	}
	for _, d := range dels {
		sh := k.KeyShapesAt(fi, d, "commitments", "Delete")
		r.Check(len(sh) == 1 && sh[0] == wantKey, id+".delete.key", "KEY-SHAPE", fn, fi.InstrPos(d),
			"deletes "+wantKey, fmt.Sprintf("deletes %v, expected %s: the packet's own commitment survives and the acknowledgement (and the refund it triggers) can be replayed", sh, wantKey))
	}
}
