package types_test

// Demonstration for fix 1e49d6c:
//   "compare BSC/ETH client expiry against the block time in seconds, not its nanosecond component"
//
// Copy into modules/tibc/light-clients/09-eth/types/ and run
//   go test -vet=off -count=1 -run 'TestDemo1e49d6c' ./modules/tibc/light-clients/09-eth/types/
//
// The test stores a consensus state with an Ethereum-style header timestamp (Unix seconds) at the
// client's latest height and asks ClientState.Status for the status at several block times.

import (
	"testing"
	"time"

	tmproto "github.com/cometbft/cometbft/proto/tendermint/types"
	"github.com/stretchr/testify/assert"

	clienttypes "github.com/bianjieai/tibc-go/modules/tibc/core/02-client/types"
	"github.com/bianjieai/tibc-go/modules/tibc/core/exported"
	bsctypes "github.com/bianjieai/tibc-go/modules/tibc/light-clients/08-bsc/types"
	ethtypes "github.com/bianjieai/tibc-go/modules/tibc/light-clients/09-eth/types"
	"github.com/bianjieai/tibc-go/simapp"
)

func TestDemo1e49d6cExpiryUsesUnixSeconds(t *testing.T) {
	const (
		headerTime     = uint64(1_700_000_000) // header.Time of the latest trusted block, Unix seconds
		trustingPeriod = uint64(1_000)         // seconds
	)
	app := simapp.Setup(t)
	cdc := app.AppCodec()
	latest := clienttypes.NewHeight(0, 100)

	// block times, all with a small sub-second component (5ns): that sub-second component is what the
	// original code compared against headerTime+trustingPeriod.
	at := func(unix uint64) time.Time { return time.Unix(int64(unix), 5).UTC() }
	cases := []struct {
		name      string
		blockTime time.Time
		want      exported.Status
	}{
		{"inside trusting period", at(headerTime + 500), exported.Active},
		{"exactly at the end of the trusting period", at(headerTime + trustingPeriod), exported.Active},
		{"one second past the trusting period", at(headerTime + trustingPeriod + 1), exported.Expired},
		{"a year past the trusting period", at(headerTime + trustingPeriod + 365*24*3600), exported.Expired},
		// largest possible sub-second component: still < 1e9 < headerTime, so the old code says Active
		{"ten years past, 999999999ns", time.Unix(int64(headerTime+10*365*24*3600), 999_999_999).UTC(), exported.Expired},
	}

	clients := []struct {
		chainName   string
		clientState exported.ClientState
		consState   exported.ConsensusState
	}{
		{
			"eth-demo",
			&ethtypes.ClientState{
				Header:         ethtypes.Header{Height: latest},
				ChainId:        1,
				TrustingPeriod: trustingPeriod,
			},
			&ethtypes.ConsensusState{Timestamp: headerTime, Number: latest, Root: make([]byte, 32)},
		},
		{
			"bsc-demo",
			&bsctypes.ClientState{
				Header:         bsctypes.Header{Height: latest},
				ChainId:        56,
				Epoch:          200,
				BlockInteval:   3,
				TrustingPeriod: trustingPeriod,
			},
			&bsctypes.ConsensusState{Timestamp: headerTime, Number: latest, Root: make([]byte, 32)},
		},
	}

	for _, cl := range clients {
		setupCtx := app.BaseApp.NewContextLegacy(false, tmproto.Header{Time: at(headerTime)})
		app.TIBCKeeper.ClientKeeper.SetClientConsensusState(setupCtx, cl.chainName, latest, cl.consState)

		for _, tc := range cases {
			ctx := setupCtx.WithBlockTime(tc.blockTime)
			store := app.TIBCKeeper.ClientKeeper.ClientStore(ctx, cl.chainName)
			got := cl.clientState.Status(ctx, store, cdc)
			t.Logf("%s client, latest consensus timestamp %d, trusting period %ds, block time %d.%09d (%s): Status = %s, want %s",
				cl.clientState.ClientType(), headerTime, trustingPeriod,
				tc.blockTime.Unix(), tc.blockTime.Nanosecond(), tc.name, got, tc.want)
			assert.Equal(t, tc.want, got,
				"%s client: %s (block time %d s, consensus timestamp %d s + trusting period %d s)",
				cl.clientState.ClientType(), tc.name, tc.blockTime.Unix(), headerTime, trustingPeriod)
		}
	}
}
