package types_test

// Demonstration for fix 9d80933:
//   "export the Tendermint client's consensus-state iteration keys with its genesis metadata"
//
// History (chain A tracks chain B with a Tendermint light client, trusting period 2 weeks):
//   1. the client is created (consensus state at height H0) and updated once (H1);
//   2. chain A is "restarted from an exported genesis": the 02-client genesis is exported
//      with the real ExportGenesis, the store of the client is wiped completely and the
//      exported genesis is loaded again with the real InitGenesis;
//   3. one week later the client is updated (H2), another week later it is updated again (H3).
//      At that moment the consensus state at H0 is older than the trusting period.
//
// Expected: the update in step 3 prunes the expired consensus state H0 together with its
// metadata, exactly as it does on a chain that was never restarted (TestPruneConsensusState).
// With the fix reverted the exported genesis has no iteration keys, so after the restart
// IterateConsensusStateAscending does not see H0/H1 and they are never pruned.

import (
	"testing"
	"time"

	"github.com/stretchr/testify/require"

	client "github.com/bianjieai/tibc-go/modules/tibc/core/02-client"
	host "github.com/bianjieai/tibc-go/modules/tibc/core/24-host"
	"github.com/bianjieai/tibc-go/modules/tibc/core/exported"
	"github.com/bianjieai/tibc-go/modules/tibc/light-clients/07-tendermint/types"
	tibctesting "github.com/bianjieai/tibc-go/modules/tibc/testing"
)

func TestDemo9d80933IterationKeysSurviveGenesisExport(t *testing.T) {
	coordinator := tibctesting.NewCoordinator(t, 2)
	chainA := coordinator.GetChain(tibctesting.GetChainID(0))
	chainB := coordinator.GetChain(tibctesting.GetChainID(1))
	coordinator.CommitNBlocks(chainA, 2)
	coordinator.CommitNBlocks(chainB, 2)

	// 1. create the client (H0) and update it once (H1)
	path := tibctesting.NewPath(chainA, chainB)
	coordinator.SetupClients(path)
	h0 := path.EndpointA.GetClientState().GetLatestHeight()
	require.NoError(t, path.EndpointA.UpdateClient())
	h1 := path.EndpointA.GetClientState().GetLatestHeight()
	require.True(t, h1.GT(h0))

	heights := func() (hs []string) {
		types.IterateConsensusStateAscending(path.EndpointA.ClientStore(), func(h exported.Height) bool {
			hs = append(hs, h.String())
			return false
		})
		return hs
	}
	require.Equal(t, []string{h0.String(), h1.String()}, heights(), "sanity: iteration keys before the export")

	// 2. restart chain A's 02-client module from its exported genesis
	k := chainA.App.TIBCKeeper.ClientKeeper
	gs := client.ExportGenesis(chainA.GetContext(), k)
	require.NoError(t, gs.Validate())

	nIterKeys := 0
	for _, md := range gs.ClientsMetadata {
		for _, m := range md.Metadata {
			if len(m.Key) >= len(types.KeyIterateConsensusStatePrefix) &&
				string(m.Key[:len(types.KeyIterateConsensusStatePrefix)]) == types.KeyIterateConsensusStatePrefix {
				nIterKeys++
			}
		}
	}
	t.Logf("exported genesis: %d client(s), %d iteration key(s) in the metadata", len(gs.Clients), nIterKeys)

	store := path.EndpointA.ClientStore()
	var keys [][]byte
	it := store.Iterator(nil, nil)
	for ; it.Valid(); it.Next() {
		keys = append(keys, append([]byte{}, it.Key()...))
	}
	it.Close()
	require.NotEmpty(t, keys)
	for _, key := range keys {
		store.Delete(key)
	}
	require.False(t, store.Has(host.ClientStateKey()), "client store must be empty before the import")
	require.Empty(t, heights())

	client.InitGenesis(chainA.GetContext(), k, gs)

	// the restored client is complete as far as client state / consensus states / processed times go
	require.Equal(t, h1, path.EndpointA.GetClientState().GetLatestHeight())
	for _, h := range []exported.Height{h0, h1} {
		_, found := chainA.GetConsensusState(chainB.ChainName, h)
		require.True(t, found, "consensus state %s restored", h)
		_, found = types.GetProcessedTime(path.EndpointA.ClientStore(), h)
		require.True(t, found, "processed time %s restored", h)
	}

	restored := heights()
	t.Logf("heights visited by IterateConsensusStateAscending after the import: %v", restored)
	if len(restored) != 2 {
		t.Errorf("after the import IterateConsensusStateAscending visits %v, want [%s %s]: the iteration keys were not exported", restored, h0, h1)
	}

	// 3. two more updates, one week apart: H0 becomes older than the trusting period (2 weeks)
	coordinator.IncrementTimeBy(7 * 24 * time.Hour)
	require.NoError(t, path.EndpointA.UpdateClient())
	coordinator.IncrementTimeBy(7 * 24 * time.Hour)
	require.NoError(t, path.EndpointA.UpdateClient())

	cs := path.EndpointA.GetClientState().(*types.ClientState)
	cons0, found := chainA.GetConsensusState(chainB.ChainName, h0)
	if found {
		require.True(t, cs.IsExpired(cons0.(*types.ConsensusState).Timestamp, chainA.GetContext().BlockTime()),
			"sanity: consensus state H0 is expired")
		t.Errorf("expired consensus state at %s (restored from genesis) was NOT pruned by UpdateClient", h0)
	}
	if _, ok := types.GetProcessedTime(path.EndpointA.ClientStore(), h0); ok {
		t.Errorf("processed time of the expired consensus state at %s was NOT pruned by UpdateClient", h0)
	}
	t.Logf("heights visited by IterateConsensusStateAscending after the updates: %v", heights())
}
