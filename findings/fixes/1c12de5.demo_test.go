package keeper_test

// Demonstration for fix 1c12de5:
//   "only Active light clients verify packets, acknowledgements and clean requests"
//
// Copy into modules/tibc/core/04-packet/keeper/ and run
//   go test -vet=off -count=1 -run 'TestDemo1c12de5' ./modules/tibc/core/04-packet/keeper/
//
// History used by every sub-test: two chains A and B with Tendermint light clients of each other
// (trusting period 2 weeks). A proof of a packet commitment / acknowledgement / clean commitment is
// produced against the client's latest consensus state. Then the verifying chain's clock moves
// past <latest consensus timestamp> + <trusting period> WITHOUT any client update, so that
// ClientState.Status reports Expired (and ClientKeeper.UpdateClient refuses the client). The same,
// otherwise valid, proof is then handed to RecvPacket / AcknowledgePacket / RecvCleanPacket.

import (
	"testing"
	"time"

	"github.com/stretchr/testify/require"

	sdk "github.com/cosmos/cosmos-sdk/types"

	clienttypes "github.com/bianjieai/tibc-go/modules/tibc/core/02-client/types"
	"github.com/bianjieai/tibc-go/modules/tibc/core/04-packet/types"
	host "github.com/bianjieai/tibc-go/modules/tibc/core/24-host"
	"github.com/bianjieai/tibc-go/modules/tibc/core/exported"
	ibctmtypes "github.com/bianjieai/tibc-go/modules/tibc/light-clients/07-tendermint/types"
	tibctesting "github.com/bianjieai/tibc-go/modules/tibc/testing"
	tibcmock "github.com/bianjieai/tibc-go/modules/tibc/testing/mock"
)

type demo1c12de5Env struct {
	coord  *tibctesting.Coordinator
	chainA *tibctesting.TestChain
	chainB *tibctesting.TestChain
	path   *tibctesting.Path
}

func newDemo1c12de5Env(t *testing.T) demo1c12de5Env {
	coord := tibctesting.NewCoordinator(t, 2)
	chainA := coord.GetChain(tibctesting.GetChainID(0))
	chainB := coord.GetChain(tibctesting.GetChainID(1))
	coord.CommitNBlocks(chainA, 2)
	coord.CommitNBlocks(chainB, 2)
	path := tibctesting.NewPath(chainA, chainB)
	coord.SetupClients(path)
	return demo1c12de5Env{coord, chainA, chainB, path}
}

// expiredContext returns a context of `chain` whose block time is one second past the end of the
// trusting period of its light client for `counterparty` (no client update happened in between),
// after checking that the client is Active now and Expired then.
func expiredContext(t *testing.T, chain *tibctesting.TestChain, counterparty string) sdk.Context {
	now := chain.GetContext()
	ck := chain.App.TIBCKeeper.ClientKeeper
	cs, found := ck.GetClientState(now, counterparty)
	require.True(t, found)
	tmcs, ok := cs.(*ibctmtypes.ClientState)
	require.True(t, ok)
	consState, found := ck.GetClientConsensusState(now, counterparty, cs.GetLatestHeight())
	require.True(t, found)

	require.Equal(t, exported.Active, cs.Status(now, ck.ClientStore(now, counterparty), chain.App.AppCodec()),
		"precondition: client must be Active at the current block time")

	later := now.WithBlockTime(time.Unix(0, int64(consState.GetTimestamp())).Add(tmcs.TrustingPeriod + time.Second).UTC())
	require.Equal(t, exported.Expired, cs.Status(later, ck.ClientStore(later, counterparty), chain.App.AppCodec()),
		"precondition: client must be Expired once the trusting period has elapsed")
	t.Logf("client for %s on %s: latest height %s, consensus time %s, trusting period %s; block time now %s (Active), later %s (Expired)",
		counterparty, chain.ChainName, cs.GetLatestHeight(), time.Unix(0, int64(consState.GetTimestamp())).UTC().Format(time.RFC3339),
		tmcs.TrustingPeriod, now.BlockTime().UTC().Format(time.RFC3339), later.BlockTime().UTC().Format(time.RFC3339))
	return later
}

func TestDemo1c12de5ExpiredClientRecvPacket(t *testing.T) {
	env := newDemo1c12de5Env(t)
	chainA, chainB := env.chainA, env.chainB

	packet := types.NewPacket(validPacketData, 1, chainA.ChainName, chainB.ChainName, "", tibctesting.MockPort)
	require.NoError(t, env.path.EndpointA.SendPacket(packet)) // commits on A and updates B's client of A

	proof, proofHeight := chainA.QueryProof(host.PacketCommitmentKey(packet.GetSourceChain(), packet.GetDestChain(), packet.GetSequence()))
	pk := chainB.App.TIBCKeeper.PacketKeeper

	// control: with the client still Active the very same proof is accepted (run on a throw-away branch)
	ctrl, _ := chainB.GetContext().CacheContext()
	require.NoError(t, pk.RecvPacket(ctrl, packet, proof, proofHeight), "control: proof must verify while the client is Active")

	// the client of chain A on chain B expires; nobody updated it
	later := expiredContext(t, chainB, chainA.ChainName)
	err := pk.RecvPacket(later, packet, proof, proofHeight)
	t.Logf("RecvPacket with Expired client returned: %v", err)
	_, receiptStored := pk.GetPacketReceipt(later, packet.GetSourceChain(), packet.GetDestChain(), packet.GetSequence())
	t.Logf("packet receipt stored: %v", receiptStored)

	require.Error(t, err, "RecvPacket accepted a packet commitment proof although the light client is Expired")
	require.ErrorIs(t, err, clienttypes.ErrClientNotActive)
	require.False(t, receiptStored, "a receipt was written for a packet verified by an Expired client")
}

func TestDemo1c12de5ExpiredClientAcknowledgePacket(t *testing.T) {
	env := newDemo1c12de5Env(t)
	chainA, chainB := env.chainA, env.chainB

	packet := types.NewPacket(validPacketData, 1, chainA.ChainName, chainB.ChainName, "", tibctesting.MockPort)
	require.NoError(t, env.path.EndpointA.SendPacket(packet))
	require.NoError(t, env.path.EndpointB.RecvPacket(packet)) // mock app writes the ack; A's client of B is updated
	ack := tibcmock.MockAcknowledgement

	proof, proofHeight := chainB.QueryProof(host.PacketAcknowledgementKey(packet.GetSourceChain(), packet.GetDestChain(), packet.GetSequence()))
	pk := chainA.App.TIBCKeeper.PacketKeeper

	ctrl, _ := chainA.GetContext().CacheContext()
	require.NoError(t, pk.AcknowledgePacket(ctrl, packet, ack, proof, proofHeight), "control: proof must verify while the client is Active")

	later := expiredContext(t, chainA, chainB.ChainName)
	err := pk.AcknowledgePacket(later, packet, ack, proof, proofHeight)
	t.Logf("AcknowledgePacket with Expired client returned: %v", err)
	commitment := pk.GetPacketCommitment(later, packet.GetSourceChain(), packet.GetDestChain(), packet.GetSequence())
	t.Logf("packet commitment still stored: %v", len(commitment) > 0)

	require.Error(t, err, "AcknowledgePacket accepted an acknowledgement proof although the light client is Expired")
	require.ErrorIs(t, err, clienttypes.ErrClientNotActive)
	require.NotEmpty(t, commitment, "the packet commitment was deleted on the word of an Expired client")
}

func TestDemo1c12de5ExpiredClientRecvCleanPacket(t *testing.T) {
	env := newDemo1c12de5Env(t)
	chainA, chainB := env.chainA, env.chainB
	src, dst := chainA.ChainName, chainB.ChainName

	// same set-up as the repository's TestRecvCleanPacket "success" case
	chainA.App.TIBCKeeper.PacketKeeper.SetMaxAckSequence(chainA.GetContext(), src, dst, 1)
	chainB.App.TIBCKeeper.PacketKeeper.SetMaxAckSequence(chainB.GetContext(), src, dst, 1)
	cleanPacket := types.NewCleanPacket(1, src, dst, "")
	require.NoError(t, env.path.EndpointA.CleanPacket(cleanPacket))
	chainB.App.TIBCKeeper.PacketKeeper.SetPacketReceipt(chainB.GetContext(), src, dst, 1)
	chainB.App.TIBCKeeper.PacketKeeper.SetPacketAcknowledgement(chainB.GetContext(), src, dst, 1, tibcmock.MockAcknowledgement)

	proof, proofHeight := chainA.QueryProof(host.CleanPacketCommitmentKey(src, dst))
	pk := chainB.App.TIBCKeeper.PacketKeeper

	ctrl, _ := chainB.GetContext().CacheContext()
	require.NoError(t, pk.RecvCleanPacket(ctrl, cleanPacket, proof, proofHeight), "control: proof must verify while the client is Active")

	later := expiredContext(t, chainB, chainA.ChainName)
	err := pk.RecvCleanPacket(later, cleanPacket, proof, proofHeight)
	t.Logf("RecvCleanPacket with Expired client returned: %v", err)
	_, receiptStored := pk.GetPacketReceipt(later, src, dst, 1)
	_, ackStored := pk.GetPacketAcknowledgement(later, src, dst, 1)
	t.Logf("receipt still stored: %v, acknowledgement still stored: %v", receiptStored, ackStored)

	require.Error(t, err, "RecvCleanPacket accepted a clean-commitment proof although the light client is Expired")
	require.ErrorIs(t, err, clienttypes.ErrClientNotActive)
	require.True(t, receiptStored, "the packet receipt was cleaned on the word of an Expired client")
	require.True(t, ackStored, "the acknowledgement was cleaned on the word of an Expired client")
}
