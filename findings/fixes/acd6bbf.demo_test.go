package keeper_test

import (
	"testing"

	"github.com/stretchr/testify/assert"
	"github.com/stretchr/testify/require"

	sdk "github.com/cosmos/cosmos-sdk/types"
	nfttypes "mods.irisnet.org/modules/nft/types"

	nfttransfertypes "github.com/bianjieai/tibc-go/modules/tibc/apps/nft_transfer/types"
	packettypes "github.com/bianjieai/tibc-go/modules/tibc/core/04-packet/types"
	routingtypes "github.com/bianjieai/tibc-go/modules/tibc/core/26-routing/types"
	tibctesting "github.com/bianjieai/tibc-go/modules/tibc/testing"
)

// TestDemoAcd6bbf: an NFT is sent from chain A to chain B through relay chain R
// (A -> R -> B). B refuses the NFT (the receiver is not a valid address) and
// writes an error acknowledgement. The acknowledgement has to travel back
// B -> R -> A so that A refunds the escrowed NFT to the sender.
//
// Everything is done with the real messages (MsgNftTransfer, MsgRecvPacket,
// MsgAcknowledgement) delivered as transactions to three simapp chains.
func TestDemoAcd6bbf(t *testing.T) {
	coordinator := tibctesting.NewCoordinator(t, 3)
	chainA := coordinator.GetChain(tibctesting.GetChainID(0)) // source
	chainR := coordinator.GetChain(tibctesting.GetChainID(1)) // relay
	chainB := coordinator.GetChain(tibctesting.GetChainID(2)) // destination

	// light clients: A <-> R and R <-> B. A and B do not know each other.
	pathAR := tibctesting.NewPath(chainA, chainR)
	coordinator.SetupClients(pathAR)
	pathRB := tibctesting.NewPath(chainR, chainB)
	coordinator.SetupClients(pathRB)
	epA, epRfromA := pathAR.EndpointA, pathAR.EndpointB // A's view of R, R's view of A
	epRtoB, epB := pathRB.EndpointA, pathRB.EndpointB   // R's view of B, B's view of R

	// the relay chain allows every route
	require.NoError(t, chainR.App.TIBCKeeper.RoutingKeeper.SetRoutingRules(chainR.GetContext(), []string{"*,*,*"}))
	coordinator.CommitBlock(chainR)

	// ---- chain A: create the NFT and send it to B through R ----
	sender := chainA.SenderAccount.GetAddress()
	_, err := chainA.SendMsgs(nfttypes.NewMsgIssueDenom(
		"mobile", "mobile-name", "", sender.String(), "", false, false, "", "", "", "",
	))
	require.NoError(t, err)
	_, err = chainA.SendMsgs(nfttypes.NewMsgMintNFT(
		"xiaomi", "mobile", "", "", "", "", sender.String(), sender.String(),
	))
	require.NoError(t, err)

	const badReceiver = "this-is-not-an-address"
	_, err = chainA.SendMsgs(nfttransfertypes.NewMsgNftTransfer(
		"mobile", "xiaomi", sender.String(), badReceiver,
		chainB.ChainName, chainR.ChainName, "",
	))
	require.NoError(t, err)

	escrow := chainA.App.NftTransferKeeper.GetNftTransferModuleAddr(nfttransfertypes.ModuleName)
	nft, err := chainA.App.NftKeeper.GetNFT(chainA.GetContext(), "mobile", "xiaomi")
	require.NoError(t, err)
	require.Equal(t, escrow.String(), nft.GetOwner().String(), "the NFT is escrowed on A while it is in flight")

	packetData := nfttransfertypes.NewNonFungibleTokenPacketData(
		"mobile", "xiaomi", "", sender.String(), badReceiver, true, "",
	)
	packet := packettypes.NewPacket(
		packetData.GetBytes(), 1,
		chainA.ChainName, chainB.ChainName, chainR.ChainName, string(routingtypes.NFT),
	)
	require.Equal(t,
		packettypes.CommitPacket(packet),
		chainA.App.TIBCKeeper.PacketKeeper.GetPacketCommitment(chainA.GetContext(), chainA.ChainName, chainB.ChainName, 1),
		"the packet the test relays is the one A committed to",
	)

	// ---- hop 1: A -> R (R only forwards: it stores the commitment) ----
	require.NoError(t, epRfromA.UpdateClient())
	require.NoError(t, epRfromA.RecvPacket(packet))
	require.Equal(t,
		packettypes.CommitPacket(packet),
		chainR.App.TIBCKeeper.PacketKeeper.GetPacketCommitment(chainR.GetContext(), chainA.ChainName, chainB.ChainName, 1),
		"the relay chain forwards the packet",
	)

	// ---- hop 2: R -> B (B runs the application, refuses the NFT, writes an error ack) ----
	require.NoError(t, epB.UpdateClient())
	require.NoError(t, epB.RecvPacket(packet))

	_, addrErr := sdk.AccAddressFromBech32(badReceiver)
	require.Error(t, addrErr)
	ack := packettypes.NewErrorAcknowledgement(addrErr.Error()).GetBytes()
	require.Equal(t, packettypes.CommitAcknowledgement(ack), chainB.GetAcknowledgement(packet),
		"B wrote the error acknowledgement")

	// ---- way back, hop 1: B -> R. R only has to forward the acknowledgement ----
	errOnRelay := epRtoB.AcknowledgePacket(packet, ack)
	if errOnRelay != nil {
		// the helper only advances the clock after a successful transaction
		coordinator.IncrementTime()
	}
	assert.NoError(t, errOnRelay, "MsgAcknowledgement on the RELAY chain must succeed")

	ackOnRelay, found := chainR.App.TIBCKeeper.PacketKeeper.GetPacketAcknowledgement(
		chainR.GetContext(), chainA.ChainName, chainB.ChainName, 1,
	)
	assert.True(t, found, "the relay chain stores the acknowledgement for the source chain to verify")
	assert.Equal(t, packettypes.CommitAcknowledgement(ack), ackOnRelay)

	// ---- way back, hop 2: R -> A. A refunds the NFT ----
	require.NoError(t, epA.UpdateClient())
	errOnSource := epA.AcknowledgePacket(packet, ack)
	assert.NoError(t, errOnSource, "MsgAcknowledgement on the SOURCE chain must succeed")

	nft, err = chainA.App.NftKeeper.GetNFT(chainA.GetContext(), "mobile", "xiaomi")
	require.NoError(t, err)
	assert.Equal(t, sender.String(), nft.GetOwner().String(),
		"after the error acknowledgement the NFT is refunded to the sender on A (escrow account is %s)", escrow)
	assert.Empty(t,
		chainA.App.TIBCKeeper.PacketKeeper.GetPacketCommitment(chainA.GetContext(), chainA.ChainName, chainB.ChainName, 1),
		"the packet is completed on A")
}
