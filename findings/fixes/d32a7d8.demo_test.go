package types_test

// Demonstration for fix d32a7d8:
//   "BSC/ETH clean-commitment proofs compare the 32-byte storage word with a 32-byte value"
//
// Copy into modules/tibc/light-clients/09-eth/types/ and run
//   go test -vet=off -count=1 -run 'TestDemoD32a7d8' ./modules/tibc/light-clients/09-eth/types/
//
// (The file is an external test package that drives BOTH the 09-eth and the 08-bsc
// client through their exported ClientState.VerifyPacketCleanCommitment.)
//
// The test builds a genuine EVM world state in which the TIBC packet contract has stored
// the clean sequence 300 in the slot keccak256("clean/<src>/<dst>" || uint256(104)),
// produces the eth_getProof answer for that slot and asks the real light clients to
// verify a clean request for sequence 300.

import (
	"encoding/json"
	"math/big"
	"testing"

	"github.com/ethereum/go-ethereum/common"
	"github.com/ethereum/go-ethereum/common/hexutil"
	"github.com/ethereum/go-ethereum/crypto"
	"github.com/ethereum/go-ethereum/ethdb/memorydb"
	"github.com/ethereum/go-ethereum/rlp"
	"github.com/ethereum/go-ethereum/trie"
	"github.com/stretchr/testify/require"

	tmproto "github.com/cometbft/cometbft/proto/tendermint/types"

	clienttypes "github.com/bianjieai/tibc-go/modules/tibc/core/02-client/types"
	host "github.com/bianjieai/tibc-go/modules/tibc/core/24-host"
	bsctypes "github.com/bianjieai/tibc-go/modules/tibc/light-clients/08-bsc/types"
	ethtypes "github.com/bianjieai/tibc-go/modules/tibc/light-clients/09-eth/types"
	"github.com/bianjieai/tibc-go/simapp"
)

type demoD32orderedNodes struct{ nodes []string }

func (o *demoD32orderedNodes) Put(_ []byte, value []byte) error {
	o.nodes = append(o.nodes, hexutil.Encode(value))
	return nil
}
func (o *demoD32orderedNodes) Delete([]byte) error { return nil }

// storage slot of mapping number 104 for `key`
func demoD32slot(key []byte) common.Hash {
	return crypto.Keccak256Hash(key, common.LeftPadBytes(big.NewInt(104).Bytes(), 32))
}

// eth_getProof answer (in the module's JSON form; the 08-bsc and 09-eth Proof types
// have identical JSON) for `slot` of `contract`, plus the state root it verifies against.
func demoD32getProof(
	t *testing.T, contract common.Address, storage map[common.Hash]common.Hash, slot common.Hash,
) (common.Hash, []byte) {
	// contract storage trie: keccak256(slot) -> rlp(value without leading zeroes)
	storageTrie, err := trie.New(common.Hash{}, trie.NewDatabase(memorydb.New()))
	require.NoError(t, err)
	for k, v := range storage {
		enc, err := rlp.EncodeToBytes(common.TrimLeftZeroes(v[:]))
		require.NoError(t, err)
		storageTrie.Update(crypto.Keccak256(k[:]), enc)
	}
	storageRoot := storageTrie.Hash()

	// account trie: keccak256(address) -> rlp(nonce, balance, storageRoot, codeHash)
	codeHash := crypto.Keccak256Hash([]byte("tibc packet contract code"))
	acctTrie, err := trie.New(common.Hash{}, trie.NewDatabase(memorydb.New()))
	require.NoError(t, err)
	acctRlp, err := rlp.EncodeToBytes(&ethtypes.ProofAccount{
		Nonce: big.NewInt(1), Balance: big.NewInt(0), Storage: storageRoot, Codehash: codeHash,
	})
	require.NoError(t, err)
	acctTrie.Update(crypto.Keccak256(contract[:]), acctRlp)
	for i := byte(1); i <= 20; i++ { // unrelated accounts
		other := common.BytesToAddress([]byte{0xaa, i})
		otherRlp, err := rlp.EncodeToBytes(&ethtypes.ProofAccount{
			Nonce: big.NewInt(int64(i)), Balance: big.NewInt(1000),
			Storage:  common.HexToHash("0x56e81f171bcc55a6ff8345e692c0f86e5b48e01b996cadc001622fb5e363b421"),
			Codehash: crypto.Keccak256Hash(nil),
		})
		require.NoError(t, err)
		acctTrie.Update(crypto.Keccak256(other[:]), otherRlp)
	}
	stateRoot := acctTrie.Hash()

	var acctNodes, storageNodes demoD32orderedNodes
	require.NoError(t, acctTrie.Prove(crypto.Keccak256(contract[:]), 0, &acctNodes))
	require.NoError(t, storageTrie.Prove(crypto.Keccak256(slot[:]), 0, &storageNodes))

	value := storage[slot]
	proof := ethtypes.Proof{
		Address:      contract.Hex(),
		Balance:      "0x0",
		CodeHash:     codeHash.Hex(),
		Nonce:        "0x1",
		StorageHash:  storageRoot.Hex(),
		AccountProof: acctNodes.nodes,
		StorageProof: []*ethtypes.StorageResult{{
			Key:   slot.Hex(),
			Value: hexutil.Encode(common.TrimLeftZeroes(value[:])),
			Proof: storageNodes.nodes,
		}},
	}
	bz, err := json.Marshal(proof)
	require.NoError(t, err)
	return stateRoot, bz
}

func TestDemoD32a7d8_CleanCommitmentProof(t *testing.T) {
	const (
		sourceChain   = "eth-mainnet"
		destChain     = "irishub"
		cleanSequence = uint64(300) // 0x012c
	)
	contract := common.HexToAddress("0x6c2d2868487665C766740ec4cAD006110CfDCff8")

	// The contract keeps the clean sequence in its commitments mapping; an EVM storage
	// word is 32 bytes, the number is right-aligned in it: 0x00..00012c.
	cleanSlot := demoD32slot(host.CleanPacketCommitmentKey(sourceChain, destChain))
	storage := map[common.Hash]common.Hash{
		cleanSlot: common.BigToHash(new(big.Int).SetUint64(cleanSequence)),
	}
	for i := uint64(1); i <= 20; i++ { // unrelated slots (packet commitments)
		storage[demoD32slot(host.PacketCommitmentKey(sourceChain, destChain, i))] =
			crypto.Keccak256Hash([]byte{byte(i)})
	}
	stateRoot, proof := demoD32getProof(t, contract, storage, cleanSlot)

	app := simapp.Setup(t)
	ctx := app.BaseApp.NewContextLegacy(false, tmproto.Header{})
	cdc := app.AppCodec()
	proofHeight := clienttypes.NewHeight(0, 100)
	latest := clienttypes.NewHeight(0, 110)

	t.Run("09-eth", func(t *testing.T) {
		const clientName = "eth-mainnet"
		app.TIBCKeeper.ClientKeeper.SetClientConsensusState(ctx, clientName, proofHeight, &ethtypes.ConsensusState{
			Timestamp: 1, Number: proofHeight, Root: stateRoot[:],
		})
		store := app.TIBCKeeper.ClientKeeper.ClientStore(ctx, clientName)
		clientState := ethtypes.ClientState{
			Header:          ethtypes.Header{Height: latest},
			ChainId:         1,
			ContractAddress: contract[:],
			TrustingPeriod:  200000,
			BlockDelay:      1,
		}

		err := clientState.VerifyPacketCleanCommitment(
			ctx, store, cdc, proofHeight, proof, sourceChain, destChain, cleanSequence,
		)
		require.NoError(t, err, "genuine proof that the clean sequence 300 is stored must verify")

		// soundness: the same proof must not verify any other sequence
		for _, other := range []uint64{0, 1, 299, 301, 300 << 8, 300 << 32} {
			err = clientState.VerifyPacketCleanCommitment(
				ctx, store, cdc, proofHeight, proof, sourceChain, destChain, other,
			)
			require.Error(t, err, "clean sequence %d is not what the contract stored", other)
		}
	})

	t.Run("08-bsc", func(t *testing.T) {
		const clientName = "bsc-mainnet"
		app.TIBCKeeper.ClientKeeper.SetClientConsensusState(ctx, clientName, proofHeight, &bsctypes.ConsensusState{
			Timestamp: 1, Number: proofHeight, Root: stateRoot[:],
		})
		store := app.TIBCKeeper.ClientKeeper.ClientStore(ctx, clientName)
		clientState := bsctypes.ClientState{
			Header:          bsctypes.Header{Height: latest},
			ChainId:         56,
			Epoch:           200,
			BlockInteval:    3,
			ContractAddress: contract[:],
			TrustingPeriod:  200,
		}

		err := clientState.VerifyPacketCleanCommitment(
			ctx, store, cdc, proofHeight, proof, sourceChain, destChain, cleanSequence,
		)
		require.NoError(t, err, "genuine proof that the clean sequence 300 is stored must verify")

		for _, other := range []uint64{0, 1, 299, 301, 300 << 8, 300 << 32} {
			err = clientState.VerifyPacketCleanCommitment(
				ctx, store, cdc, proofHeight, proof, sourceChain, destChain, other,
			)
			require.Error(t, err, "clean sequence %d is not what the contract stored", other)
		}
	})
}
