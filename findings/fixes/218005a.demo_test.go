package keeper_test

import (
	"regexp"
	"testing"

	"github.com/stretchr/testify/assert"
	"github.com/stretchr/testify/require"

	host "github.com/bianjieai/tibc-go/modules/tibc/core/24-host"
	"github.com/bianjieai/tibc-go/modules/tibc/core/26-routing/keeper"
	tibctesting "github.com/bianjieai/tibc-go/modules/tibc/testing"
)

// TestDemo218005a shows that a routing rule is a list of three literal names
// (or the '*' wildcard) and has to be matched as such. All names used below are
// legal chain names / ports (host.SourceChainValidator accepts them) and all the
// rules are accepted by SetRoutingRules.
func TestDemo218005a(t *testing.T) {
	type probe struct {
		source, dest, port string
		want               bool
	}
	cases := []struct {
		name   string
		rules  []string
		probes []probe
	}{
		{
			name:  "'+' in a rule is a literal plus, not a repetition operator",
			rules: []string{"a+b,*,*"},
			probes: []probe{
				{"a+b", "chain-dest", "nft", true},  // the chain the rule names
				{"aab", "chain-dest", "nft", false}, // a different chain
				{"ab", "chain-dest", "nft", false},  // a different chain
			},
		},
		{
			name:  "'[...]' in a rule is a literal name, not a character class",
			rules: []string{"chain[a-z],*,*"},
			probes: []probe{
				{"chain[a-z]", "chain-dest", "nft", true}, // the chain the rule names
				{"chainq", "chain-dest", "nft", false},    // a different chain
			},
		},
		{
			name:  "a rule with an unbalanced '[' still matches the chain it names",
			rules: []string{"net[1,*,*"},
			probes: []probe{
				{"net[1", "chain-dest", "nft", true},
			},
		},
		{
			name:  "a rule starting with '+' still matches the chain it names",
			rules: []string{"+x,*,*"},
			probes: []probe{
				{"+x", "chain-dest", "nft", true},
			},
		},
		{
			name:  "behaviour that must not change: '.' literal, '*' wildcard",
			rules: []string{"a.b,*,nft", "*,hub,*"},
			probes: []probe{
				{"a.b", "chain-dest", "nft", true},
				{"axb", "chain-dest", "nft", false},
				{"a.b", "chain-dest", "mt", false},
				{"anything", "hub", "mt", true},
				{"anything", "hubx", "mt", false},
			},
		},
	}

	for _, tc := range cases {
		tc := tc
		t.Run(tc.name, func(t *testing.T) {
			coordinator := tibctesting.NewCoordinator(t, 1)
			chain := coordinator.GetChain(tibctesting.GetChainID(0))
			coordinator.CommitNBlocks(chain, 2)
			ctx := chain.GetContext()
			rk := chain.App.TIBCKeeper.RoutingKeeper

			// the rules are valid for every entry point (proposal/keeper and genesis)
			require.NoError(t, host.RoutingRulesValidator(tc.rules))
			require.NoError(t, rk.SetRoutingRules(ctx, tc.rules))

			for _, rule := range tc.rules {
				_, err := regexp.Compile(keeper.ConvWildcardToRegular(rule))
				assert.NoError(t, err, "rule %q is converted to an expression that does not compile: %q",
					rule, keeper.ConvWildcardToRegular(rule))
			}

			for _, p := range tc.probes {
				// the probed names are legal identifiers
				require.NoError(t, host.SourceChainValidator(p.source))
				require.NoError(t, host.SourceChainValidator(p.dest))
				require.NoError(t, host.SourceChainValidator(p.port))

				got := rk.Authenticate(ctx, p.source, p.dest, p.port)
				assert.Equal(t, p.want, got,
					"rules %q: Authenticate(source=%q, dest=%q, port=%q)", tc.rules, p.source, p.dest, p.port)
			}
		})
	}
}
