package types_test

// Demonstration for fix 5792dc0:
//   "BSC storage proofs compare the proven slot itself with the expected slot"
//
// Copy into modules/tibc/light-clients/08-bsc/types/ and run
//   go test -vet=off -count=1 -run 'TestDemo5792dc0' ./modules/tibc/light-clients/08-bsc/types/
//
// The test builds a genuine EVM world state (account trie + contract storage trie,
// both "secure" tries, i.e. keyed by keccak256 of the address / of the slot, exactly
// as geth/BSC do), stores a packet commitment in the slot
//   keccak256(packetCommitmentKey || uint256(104))
// of the TIBC packet contract, produces the eth_getProof answer for that slot and
// feeds it to the REAL BSC light client (ClientState.VerifyPacketCommitment /
// VerifyPacketAcknowledgement) through a real client store of the simapp.

import (
	"crypto/sha256"
	"encoding/json"
	"math/big"
	"testing"

	"github.com/ethereum/go-ethereum/common"
	"github.com/ethereum/go-ethereum/common/hexutil"
	"github.com/ethereum/go-ethereum/crypto"
	"github.com/ethereum/go-ethereum/ethdb/memorydb"
	"github.com/ethereum/go-ethereum/rlp"
	"github.com/ethereum/go-ethereum/trie"
	"github.com/stretchr/testify/require"

	tmproto "github.com/cometbft/cometbft/proto/tendermint/types"

	clienttypes "github.com/bianjieai/tibc-go/modules/tibc/core/02-client/types"
	host "github.com/bianjieai/tibc-go/modules/tibc/core/24-host"
	bsctypes "github.com/bianjieai/tibc-go/modules/tibc/light-clients/08-bsc/types"
	"github.com/bianjieai/tibc-go/simapp"
)

// demo5792orderedNodes records trie proof nodes in the order trie.Prove emits them
// (root first), which is the order eth_getProof returns them in.
type demo5792orderedNodes struct{ nodes []string }

func (o *demo5792orderedNodes) Put(_ []byte, value []byte) error {
	o.nodes = append(o.nodes, hexutil.Encode(value))
	return nil
}
func (o *demo5792orderedNodes) Delete([]byte) error { return nil }

// demo5792slot is the storage slot of `mapping(bytes => ...)` number 104 for `key`,
// computed independently of the module's ProofKeyConstructor.
func demo5792slot(key []byte) common.Hash {
	return crypto.Keccak256Hash(key, common.LeftPadBytes(big.NewInt(104).Bytes(), 32))
}

// demo5792getProof builds the world state and returns (state root, eth_getProof answer
// for `slot` of `contract`, as the JSON the relayer submits).
func demo5792getProof(
	t *testing.T, contract common.Address, storage map[common.Hash]common.Hash, slot common.Hash,
) (common.Hash, []byte) {
	// contract storage trie: keccak256(slot) -> rlp(value without leading zeroes)
	storageTrie, err := trie.New(common.Hash{}, trie.NewDatabase(memorydb.New()))
	require.NoError(t, err)
	for k, v := range storage {
		enc, err := rlp.EncodeToBytes(common.TrimLeftZeroes(v[:]))
		require.NoError(t, err)
		storageTrie.Update(crypto.Keccak256(k[:]), enc)
	}
	storageRoot := storageTrie.Hash()

	// account trie: keccak256(address) -> rlp(nonce, balance, storageRoot, codeHash)
	codeHash := crypto.Keccak256Hash([]byte("tibc packet contract code"))
	acctTrie, err := trie.New(common.Hash{}, trie.NewDatabase(memorydb.New()))
	require.NoError(t, err)
	acctRlp, err := rlp.EncodeToBytes(&bsctypes.ProofAccount{
		Nonce: big.NewInt(1), Balance: big.NewInt(0), Storage: storageRoot, Codehash: codeHash,
	})
	require.NoError(t, err)
	acctTrie.Update(crypto.Keccak256(contract[:]), acctRlp)
	// some unrelated accounts so that the account proof has more than one node
	for i := byte(1); i <= 20; i++ {
		other := common.BytesToAddress([]byte{0xaa, i})
		otherRlp, err := rlp.EncodeToBytes(&bsctypes.ProofAccount{
			Nonce: big.NewInt(int64(i)), Balance: big.NewInt(1000),
			Storage: common.HexToHash("0x56e81f171bcc55a6ff8345e692c0f86e5b48e01b996cadc001622fb5e363b421"),
			Codehash: crypto.Keccak256Hash(nil),
		})
		require.NoError(t, err)
		acctTrie.Update(crypto.Keccak256(other[:]), otherRlp)
	}
	stateRoot := acctTrie.Hash()

	var acctNodes, storageNodes demo5792orderedNodes
	require.NoError(t, acctTrie.Prove(crypto.Keccak256(contract[:]), 0, &acctNodes))
	require.NoError(t, storageTrie.Prove(crypto.Keccak256(slot[:]), 0, &storageNodes))

	value := storage[slot]
	proof := bsctypes.Proof{
		Address:      contract.Hex(),
		Balance:      "0x0",
		CodeHash:     codeHash.Hex(),
		Nonce:        "0x1",
		StorageHash:  storageRoot.Hex(),
		AccountProof: acctNodes.nodes,
		StorageProof: []*bsctypes.StorageResult{{
			Key:   slot.Hex(), // eth_getProof echoes the requested slot
			Value: hexutil.Encode(common.TrimLeftZeroes(value[:])),
			Proof: storageNodes.nodes,
		}},
	}
	bz, err := json.Marshal(proof)
	require.NoError(t, err)
	return stateRoot, bz
}

func TestDemo5792dc0_BSCStorageProofOfPacketCommitment(t *testing.T) {
	const (
		clientName  = "bsc-testnet" // name of the BSC light client on this chain
		sourceChain = "bsc-testnet"
		destChain   = "irishub"
		sequence    = uint64(7)
	)
	contract := common.HexToAddress("0x6c2d2868487665C766740ec4cAD006110CfDCff8")

	// what the packet contract on BSC stored
	commitment := sha256.Sum256([]byte("packet data of sequence 7"))
	ack := sha256.Sum256([]byte("acknowledgement of sequence 7"))
	commitmentSlot := demo5792slot(host.PacketCommitmentKey(sourceChain, destChain, sequence))
	ackSlot := demo5792slot(host.PacketAcknowledgementKey(sourceChain, destChain, sequence))
	storage := map[common.Hash]common.Hash{
		commitmentSlot: commitment,
		ackSlot:        ack,
	}
	// unrelated slots so that the storage proof has more than one node
	for i := uint64(1); i <= 20; i++ {
		if i == sequence {
			continue
		}
		storage[demo5792slot(host.PacketCommitmentKey(sourceChain, destChain, i))] =
			sha256.Sum256([]byte{byte(i)})
	}

	stateRoot, commitmentProof := demo5792getProof(t, contract, storage, commitmentSlot)
	_, ackProof := demo5792getProof(t, contract, storage, ackSlot)

	// real app, real client store; consensus state (state root) at the proof height
	app := simapp.Setup(t)
	ctx := app.BaseApp.NewContextLegacy(false, tmproto.Header{})
	proofHeight := clienttypes.NewHeight(0, 100)
	app.TIBCKeeper.ClientKeeper.SetClientConsensusState(ctx, clientName, proofHeight, &bsctypes.ConsensusState{
		Timestamp: 1,
		Number:    proofHeight,
		Root:      stateRoot[:],
	})
	store := app.TIBCKeeper.ClientKeeper.ClientStore(ctx, clientName)
	cdc := app.AppCodec()

	clientState := bsctypes.ClientState{
		Header:          bsctypes.Header{Height: clienttypes.NewHeight(0, 110)}, // latest height, past the delay
		ChainId:         97,
		Epoch:           200,
		BlockInteval:    3,
		ContractAddress: contract[:],
		TrustingPeriod:  200,
	}

	// 1. the genuine proof of the genuine commitment must verify
	err := clientState.VerifyPacketCommitment(
		ctx, store, cdc, proofHeight, commitmentProof, sourceChain, destChain, sequence, commitment[:],
	)
	require.NoError(t, err, "genuine eth_getProof result for the packet commitment slot must verify")

	// 2. same for the acknowledgement
	err = clientState.VerifyPacketAcknowledgement(
		ctx, store, cdc, proofHeight, ackProof, sourceChain, destChain, sequence, ack[:],
	)
	require.NoError(t, err, "genuine eth_getProof result for the acknowledgement slot must verify")

	// 3. soundness is kept: a wrong commitment, and a (valid) proof of another slot, are rejected
	wrong := sha256.Sum256([]byte("forged"))
	err = clientState.VerifyPacketCommitment(
		ctx, store, cdc, proofHeight, commitmentProof, sourceChain, destChain, sequence, wrong[:],
	)
	require.Error(t, err, "a commitment that is not in the slot must not verify")

	err = clientState.VerifyPacketCommitment(
		ctx, store, cdc, proofHeight, ackProof, sourceChain, destChain, sequence, ack[:],
	)
	require.Error(t, err, "a proof of a different slot must not verify as the packet commitment")

	err = clientState.VerifyPacketCommitment(
		ctx, store, cdc, proofHeight, commitmentProof, sourceChain, destChain, sequence+1, commitment[:],
	)
	require.Error(t, err, "the proof of sequence 7 must not verify for sequence 8")
}
