package types_test

// Demonstration for fix e5d8de8:
//   "verify ETH header seals with an in-memory ethash cache instead of a temp directory"
//
// Copy into modules/tibc/light-clients/09-eth/types/ and run
//   go test -vet=off -count=1 -run 'TestDemoE5d8de8' ./modules/tibc/light-clients/09-eth/types/
//
// Two validators process the SAME MsgUpdateClient carrying the same, perfectly valid,
// mainnet Ethereum header (testdata/update_headers.json, the data of the package's own
// TestCheckHeaderAndUpdateState) on the SAME state. The only difference is the
// machine: on validator B the directory for temporary files is unusable (here: $TMPDIR
// points to a path that does not exist; a full disk, a read-only /tmp or missing
// permissions have the same effect). Both validators must reach the same verdict.

import (
	"encoding/json"
	"os"
	"path/filepath"
	"testing"
	"time"

	"github.com/stretchr/testify/require"

	tmproto "github.com/cometbft/cometbft/proto/tendermint/types"

	clienttypes "github.com/bianjieai/tibc-go/modules/tibc/core/02-client/types"
	ethtypes "github.com/bianjieai/tibc-go/modules/tibc/light-clients/09-eth/types"
	"github.com/bianjieai/tibc-go/simapp"
)

func TestDemoE5d8de8_HeaderVerdictIndependentOfTempDir(t *testing.T) {
	const clientName = "eth"

	var headers []*ethtypes.EthHeader
	bz, err := os.ReadFile("testdata/update_headers.json")
	require.NoError(t, err)
	require.NoError(t, json.Unmarshal(bz, &headers))
	require.GreaterOrEqual(t, len(headers), 2)

	// state shared by both validators: client trusts headers[0]
	app := simapp.Setup(t)
	ctx := app.BaseApp.NewContextLegacy(false, tmproto.Header{Time: time.Now()})

	trusted := headers[0].ToHeader()
	height := clienttypes.NewHeight(0, headers[0].Number.Uint64())
	clientState := &ethtypes.ClientState{
		Header:          trusted,
		ChainId:         1,
		ContractAddress: []byte("0x00"),
		TrustingPeriod:  200000,
		TimeDelay:       0,
		BlockDelay:      1,
	}
	app.TIBCKeeper.ClientKeeper.SetClientConsensusState(ctx, clientName, height, &ethtypes.ConsensusState{
		Timestamp: headers[0].Time,
		Number:    height,
		Root:      headers[0].Root[:],
	})
	store := app.TIBCKeeper.ClientKeeper.ClientStore(ctx, clientName)
	trustedBz, err := app.AppCodec().MarshalInterface(&trusted)
	require.NoError(t, err)
	ethtypes.SetEthHeaderIndex(store, trusted, trustedBz)
	ethtypes.SetEthConsensusRoot(store, trusted.Height.RevisionHeight, trusted.ToEthHeader().Root, headers[0].Hash())

	// the header both validators have to judge
	update := headers[1].ToHeader()

	// one validator = one branch of the same state (so that both start from identical state)
	judge := func() error {
		branch, _ := ctx.CacheContext()
		_, _, err := clientState.CheckHeaderAndUpdateState(
			branch,
			app.AppCodec(),
			app.TIBCKeeper.ClientKeeper.ClientStore(branch, clientName),
			&update,
		)
		return err
	}

	// validator A: healthy machine
	errA := judge()
	require.NoError(t, errA, "the header is a valid successor of the trusted header")

	// validator B: directory for temporary files is unusable
	t.Setenv("TMPDIR", filepath.Join(t.TempDir(), "does", "not", "exist"))
	errB := judge()

	t.Logf("validator A (usable temp dir):   err = %v", errA)
	t.Logf("validator B (unusable temp dir): err = %v", errB)
	require.NoError(t, errB,
		"validator B rejects a header validator A accepted: the verdict depends on the node's file system")
}
