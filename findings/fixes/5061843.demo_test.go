package nfttransfer_test

// Demonstration for fix 5061843:
//   "refuse to send a native NFT class whose id has the form of a voucher class path"
//
// History (chain A = testchain0, chain B = testchain1):
//   1. the victim issues the class "dog" on A, mints dog/rex and transfers it to B.
//      A escrows dog/rex in the nft-transfer module account, B mints the voucher
//      tibc-hash(nft/testchain0/testchain1/dog)/rex for the victim;
//   2. the attacker (a different account on B) issues, with the ordinary NFT module messages,
//      a NATIVE class on B whose id is the text "nft/testchain0/testchain1/dog" and mints
//      himself a token "rex" in it (the NFT module accepts '/' and does not reserve "nft");
//   3. the attacker sends this home-made token to chain A with MsgNftTransfer.
//
// Expected: step 3 is refused, dog/rex stays in A's escrow and the victim can redeem it later.
// With the fix reverted step 3 is accepted: B burns the home-made token and emits a packet
// {class: nft/testchain0/testchain1/dog, awayFromOrigin: false}; A releases the escrowed
// dog/rex to the attacker's receiver and the victim's voucher can never be redeemed.

import (
	"testing"

	"github.com/stretchr/testify/require"

	nfttypes "mods.irisnet.org/modules/nft/types"

	"github.com/bianjieai/tibc-go/modules/tibc/apps/nft_transfer/types"
	packettypes "github.com/bianjieai/tibc-go/modules/tibc/core/04-packet/types"
	routingtypes "github.com/bianjieai/tibc-go/modules/tibc/core/26-routing/types"
	tibctesting "github.com/bianjieai/tibc-go/modules/tibc/testing"
)

func TestDemo5061843NativeClassShapedLikeVoucherPath(t *testing.T) {
	coordinator := tibctesting.NewCoordinator(t, 2)
	chainA := coordinator.GetChain(tibctesting.GetChainID(0))
	chainB := coordinator.GetChain(tibctesting.GetChainID(1))
	path := tibctesting.NewPath(chainA, chainB)
	coordinator.SetupClients(path)

	// account 0 of every chain is the victim (and the registered relayer), account 1 the attacker
	victimA := chainA.SenderAccounts[0].SenderAccount.GetAddress()
	victimB := chainB.SenderAccounts[0].SenderAccount.GetAddress()
	attackerA := chainA.SenderAccounts[1].SenderAccount.GetAddress()
	attackerB := chainB.SenderAccounts[1].SenderAccount.GetAddress()
	actAs := func(chain *tibctesting.TestChain, i int) {
		chain.SenderPrivKey = chain.SenderAccounts[i].SenderPrivKey
		chain.SenderAccount = chain.SenderAccounts[i].SenderAccount
	}
	escrowA := chainA.App.NftTransferKeeper.GetNftTransferModuleAddr(types.ModuleName)
	ownerOnA := func() string {
		nft, err := chainA.App.NftKeeper.GetNFT(chainA.GetContext(), "dog", "rex")
		require.NoError(t, err)
		return nft.GetOwner().String()
	}
	who := func(addr string) string {
		switch addr {
		case victimA.String():
			return "victim"
		case attackerA.String():
			return "ATTACKER"
		case escrowA.String():
			return "nft-transfer escrow"
		}
		return addr
	}

	// ---- 1. victim: issue dog, mint dog/rex on A, transfer it to B ---------------------
	_, err := chainA.SendMsgs(nfttypes.NewMsgIssueDenom("dog", "dog-name", "", victimA.String(), "", false, false, "", "", "", ""))
	require.NoError(t, err)
	_, err = chainA.SendMsgs(nfttypes.NewMsgMintNFT("rex", "dog", "", "", "", "", victimA.String(), victimA.String()))
	require.NoError(t, err)
	_, err = chainA.SendMsgs(types.NewMsgNftTransfer("dog", "rex", victimA.String(), victimB.String(), chainB.ChainName, "", ""))
	require.NoError(t, err)

	data := types.NewNonFungibleTokenPacketData("dog", "rex", "", victimA.String(), victimB.String(), true, "")
	packet := packettypes.NewPacket(data.GetBytes(), 1, chainA.ChainName, chainB.ChainName, "", string(routingtypes.NFT))
	okAck := packettypes.NewResultAcknowledgement([]byte{byte(1)})
	require.NoError(t, path.RelayPacket(packet, okAck.GetBytes()))

	voucherPath := "nft/" + chainA.ChainName + "/" + chainB.ChainName + "/dog"
	voucherClass := types.ParseClassTrace(voucherPath).IBCClass()
	voucher, err := chainB.App.NftKeeper.GetNFT(chainB.GetContext(), voucherClass, "rex")
	require.NoError(t, err)
	require.Equal(t, victimB.String(), voucher.GetOwner().String(), "victim holds the voucher on B")
	require.Equal(t, escrowA.String(), ownerOnA(), "dog/rex is escrowed on A")

	// ---- 2. attacker: native class on B named like the voucher path ---------------------
	actAs(chainB, 1)
	_, err = chainB.SendMsgs(nfttypes.NewMsgIssueDenom(voucherPath, "fake", "", attackerB.String(), "", false, false, "", "", "", ""))
	require.NoError(t, err, "the NFT module accepts a class id of the form nft/<chain>/<chain>/<class>")
	_, err = chainB.SendMsgs(nfttypes.NewMsgMintNFT("rex", voucherPath, "", "", "", "", attackerB.String(), attackerB.String()))
	require.NoError(t, err)

	// ---- 3. attacker: "return" the home-made token to A --------------------------------
	_, err = chainB.SendMsgs(types.NewMsgNftTransfer(voucherPath, "rex", attackerB.String(), attackerA.String(), chainA.ChainName, "", ""))
	actAs(chainB, 0)

	if err != nil {
		t.Logf("transfer of the native class %q refused: %v", voucherPath, err)
		require.Contains(t, err.Error(), "must not have the form of a voucher class path")
		// nothing was burned
		fake, err := chainB.App.NftKeeper.GetNFT(chainB.GetContext(), voucherPath, "rex")
		require.NoError(t, err)
		require.Equal(t, attackerB.String(), fake.GetOwner().String())
	} else {
		t.Errorf("transfer of the NATIVE class %q from %s to %s was accepted as a voucher going home", voucherPath, chainB.ChainName, chainA.ChainName)
		_, err := chainB.App.NftKeeper.GetNFT(chainB.GetContext(), voucherPath, "rex")
		t.Logf("home-made token on B after the send: %v (burned)", err)

		// relay the packet the attacker produced
		evil := types.NewNonFungibleTokenPacketData(voucherPath, "rex", "", attackerB.String(), attackerA.String(), false, "")
		evilPacket := packettypes.NewPacket(evil.GetBytes(), 1, chainB.ChainName, chainA.ChainName, "", string(routingtypes.NFT))
		require.NoError(t, path.RelayPacket(evilPacket, okAck.GetBytes()), "packet received on A with a success acknowledgement")
	}

	owner := ownerOnA()
	t.Logf("owner of dog/rex on chain A after the attacker's transfer: %s", who(owner))
	if owner != escrowA.String() {
		t.Errorf("dog/rex left the escrow of chain A: it now belongs to %s (%s) although the victim still holds the voucher on B", who(owner), owner)
	}

	// ---- 4. victim redeems the genuine voucher -----------------------------------------
	voucher, err = chainB.App.NftKeeper.GetNFT(chainB.GetContext(), voucherClass, "rex")
	require.NoError(t, err)
	require.Equal(t, victimB.String(), voucher.GetOwner().String(), "victim still holds the voucher on B")

	_, err = chainB.SendMsgs(types.NewMsgNftTransfer(voucherClass, "rex", victimB.String(), victimA.String(), chainA.ChainName, "", ""))
	require.NoError(t, err)
	seq := chainB.App.TIBCKeeper.PacketKeeper.GetNextSequenceSend(chainB.GetContext(), chainB.ChainName, chainA.ChainName) - 1
	back := types.NewNonFungibleTokenPacketData(voucherPath, "rex", "", victimB.String(), victimA.String(), false, "")
	backPacket := packettypes.NewPacket(back.GetBytes(), seq, chainB.ChainName, chainA.ChainName, "", string(routingtypes.NFT))
	require.NoError(t, path.EndpointA.UpdateClient())
	require.NoError(t, path.EndpointA.RecvPacket(backPacket))

	owner = ownerOnA()
	t.Logf("owner of dog/rex on chain A after the victim redeemed the voucher: %s", who(owner))
	if owner != victimA.String() {
		t.Errorf("the victim redeemed the genuine voucher but dog/rex belongs to %s (%s)", who(owner), owner)
	}
}
