package keeper_test

// Demonstration for fix f95dc58:
//   "export consensus states and processed times whose binary height contains '/'"
//
// History: three Tendermint clients are created through the real ClientKeeper.CreateClient
//   - "chain-ctl-46"  at height 0-46     (no 0x2f byte in the binary height: control)
//   - "chain-low-47"   at height 0-47     (last height byte is 0x2f == '/')
//   - "chain-high-12040"   at height 0-12040  (0x2f08: the second-to-last height byte is '/')
// then the 02-client genesis is exported and imported into a fresh application.
//
// Expected: every client keeps its consensus state and its processed time.
// With the fix reverted the consensus states / processed times of "chain-low-47" and
// "chain-high-12040" are silently missing from the exported genesis, and after the import
// the two clients have no consensus state at their latest height (status != Active).

import (
	"testing"
	"time"

	"github.com/stretchr/testify/require"

	tmproto "github.com/cometbft/cometbft/proto/tendermint/types"

	client "github.com/bianjieai/tibc-go/modules/tibc/core/02-client"
	"github.com/bianjieai/tibc-go/modules/tibc/core/02-client/types"
	commitmenttypes "github.com/bianjieai/tibc-go/modules/tibc/core/23-commitment/types"
	"github.com/bianjieai/tibc-go/modules/tibc/core/exported"
	ibctmtypes "github.com/bianjieai/tibc-go/modules/tibc/light-clients/07-tendermint/types"
	ibctesting "github.com/bianjieai/tibc-go/modules/tibc/testing"
	"github.com/bianjieai/tibc-go/simapp"
)

func TestDemoF95dc58ExportHeightsContainingSlash(t *testing.T) {
	now := time.Date(2020, 1, 2, 0, 0, 0, 0, time.UTC)

	app := simapp.Setup(t)
	ctx := app.BaseApp.NewContextLegacy(false, tmproto.Header{Height: 5, ChainID: "demo-src", Time: now})
	k := app.TIBCKeeper.ClientKeeper

	clients := []struct {
		name   string
		height types.Height
	}{
		{"chain-ctl-46", types.NewHeight(0, 46)},
		{"chain-low-47", types.NewHeight(0, 47)},        // 0x000000000000002f
		{"chain-high-12040", types.NewHeight(0, 12040)}, // 0x0000000000002f08
	}

	consState := ibctmtypes.NewConsensusState(
		now.Add(-time.Minute), commitmenttypes.NewMerkleRoot([]byte("hash")), []byte("next-validators-hash-32-bytes-xx"),
	)
	for _, c := range clients {
		cs := ibctmtypes.NewClientState(
			"counterparty-0", ibctmtypes.DefaultTrustLevel, trustingPeriod, ubdPeriod, maxClockDrift,
			c.height, commitmenttypes.GetSDKSpecs(), ibctesting.Prefix, 0,
		)
		require.NoError(t, k.CreateClient(ctx, c.name, cs, consState))
		// sanity: everything is in the store of the running chain
		_, found := k.GetClientConsensusState(ctx, c.name, c.height)
		require.True(t, found)
		_, found = ibctmtypes.GetProcessedTime(k.ClientStore(ctx, c.name), c.height)
		require.True(t, found)
		require.Equal(t, exported.Active, cs.Status(ctx, k.ClientStore(ctx, c.name), app.AppCodec()))
	}

	// ---- export -------------------------------------------------------------------
	gs := client.ExportGenesis(ctx, k)
	require.Len(t, gs.Clients, len(clients))

	exportedConsensus := map[string][]types.Height{}
	for _, cc := range gs.ClientsConsensus {
		for _, cs := range cc.ConsensusStates {
			exportedConsensus[cc.ChainName] = append(exportedConsensus[cc.ChainName], cs.Height)
		}
	}
	exportedProcessedTime := map[string]bool{}
	for _, md := range gs.ClientsMetadata {
		for _, c := range clients {
			if md.ChainName != c.name {
				continue
			}
			for _, m := range md.Metadata {
				if string(m.Key) == string(ibctmtypes.ProcessedTimeKey(c.height)) {
					exportedProcessedTime[c.name] = true
				}
			}
		}
	}
	t.Logf("exported consensus heights: %v", exportedConsensus)
	t.Logf("exported processed times:   %v", exportedProcessedTime)

	for _, c := range clients {
		// NOTE: assert (not require) so that every missing item is reported
		if got := exportedConsensus[c.name]; len(got) != 1 || !got[0].EQ(c.height) {
			t.Errorf("exported genesis lacks the consensus state of client %s at height %s (got heights %v)", c.name, c.height, got)
		}
		if !exportedProcessedTime[c.name] {
			t.Errorf("exported genesis lacks the processed time of client %s at height %s", c.name, c.height)
		}
	}

	// ---- import into a fresh application ------------------------------------------
	app2 := simapp.Setup(t)
	ctx2 := app2.BaseApp.NewContextLegacy(false, tmproto.Header{Height: 1, ChainID: "demo-dst", Time: now})
	k2 := app2.TIBCKeeper.ClientKeeper
	require.NoError(t, gs.Validate())
	client.InitGenesis(ctx2, k2, gs)

	for _, c := range clients {
		cs, found := k2.GetClientState(ctx2, c.name)
		require.True(t, found, "client %s not restored", c.name)
		if _, found := k2.GetClientConsensusState(ctx2, c.name, c.height); !found {
			t.Errorf("after import: client %s has no consensus state at its latest height %s", c.name, c.height)
		}
		if _, found := ibctmtypes.GetProcessedTime(k2.ClientStore(ctx2, c.name), c.height); !found {
			t.Errorf("after import: client %s has no processed time at height %s", c.name, c.height)
		}
		if st := cs.Status(ctx2, k2.ClientStore(ctx2, c.name), app2.AppCodec()); st != exported.Active {
			t.Errorf("after import: client %s has status %s, want Active", c.name, st)
		}
	}
}
