#!/bin/sh
# usage: verify_demos.sh [fixes|known|all]
# Reproduces the demonstrations against the REAL code in a scratch worktree of /repo HEAD
# (outside /repo and /verif, removed at the end). Not part of any registered check: the
# checks are static; this only documents that the findings are genuine.
#   fixes: each demo must PASS at HEAD and FAIL with that one fix reverted (reverts/<hash>/revert.diff)
#   known: each demo asserts the property and must FAIL at HEAD (recorded, unrepaired defects)
export GOFLAGS=-mod=mod GOPROXY=off GOSUMDB=off GOTOOLCHAIN=local; unset GOWORK
HERE=$(cd "$(dirname "$0")" && pwd)
WHAT=${1:-all}
WT=/tmp/verify_demos_wt
git -C /repo worktree remove --force $WT >/dev/null 2>&1
git -C /repo worktree add --detach $WT HEAD >/dev/null 2>&1 || exit 3
run() { # file pkgdir pattern -> PASS|FAIL
  cp "$1" "$WT/$2/zz_demo_test.go"
  if (cd $WT && go test -vet=off -count=1 -run "$3" "./$2/" >/tmp/verify_demo.log 2>&1); then echo PASS; else echo FAIL; fi
  rm -f "$WT/$2/zz_demo_test.go"
}
if [ "$WHAT" = fixes ] || [ "$WHAT" = all ]; then
while read h pkg pat; do
  [ -z "$h" ] && continue
  a=$(run "$HERE/fixes/$h.demo_test.go" "$pkg" "$pat")
  git -C $WT apply "$HERE/reverts/$h/revert.diff"
  b=$(run "$HERE/fixes/$h.demo_test.go" "$pkg" "$pat")
  git -C $WT checkout -q -- .
  echo "fix $h: at HEAD $a, with the fix reverted $b  (expected PASS, FAIL)"
done <<EOF
acd6bbf modules/tibc/core/keeper TestDemoAcd6bbf
218005a modules/tibc/core/26-routing/keeper TestDemo218005a
1e49d6c modules/tibc/light-clients/09-eth/types TestDemo1e49d6c
1c12de5 modules/tibc/core/04-packet/keeper TestDemo1c12de5
e5d8de8 modules/tibc/light-clients/09-eth/types TestDemoE5d8de8
5792dc0 modules/tibc/light-clients/08-bsc/types TestDemo5792dc0
d32a7d8 modules/tibc/light-clients/09-eth/types TestDemoD32a7d8
f95dc58 modules/tibc/core/02-client/keeper TestDemoF95dc58
9d80933 modules/tibc/light-clients/07-tendermint/types TestDemo9d80933
5061843 modules/tibc/apps/nft_transfer TestDemo5061843
EOF
fi
if [ "$WHAT" = known ] || [ "$WHAT" = all ]; then
while read l pkg pat; do
  [ -z "$l" ] && continue
  a=$(run "$HERE/known/$l.demo_test.go" "$pkg" "$pat")
  echo "known finding $l: at HEAD $a  (expected FAIL: the defect is recorded, not repaired)"
done <<EOF
A modules/tibc/apps/nft_transfer TestF5A
B1 modules/tibc/apps/nft_transfer TestF5B1
B2 modules/tibc/apps/nft_transfer TestF5B2
B3 modules/tibc/apps/nft_transfer TestF5B3
C1 modules/tibc/core TestF5C1
C2 modules/tibc/core TestF5C2
C3 modules/tibc/apps/nft_transfer TestF5C3
EOF
fi
git -C /repo worktree remove --force $WT >/dev/null 2>&1
rm -f /tmp/verify_demo.log
