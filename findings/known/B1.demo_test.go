package nfttransfer_test

// Finding B1: Packet.Port is not part of the packet commitment (the proven key is
// commitments/<src>/<dst>/sequences/<seq>, the proven value is sha256(packet.Data)),
// but msgServer.RecvPacket routes the packet to the application named by
// msg.Packet.Port. A relayer can deliver a genuinely committed nft-transfer
// packet to a different registered module.
//
// copy into: modules/tibc/apps/nft_transfer/
// run:       go test -vet=off -count=1 -run 'TestF5B1' ./modules/tibc/apps/nft_transfer/

import (
	"testing"

	"github.com/stretchr/testify/assert"
	"github.com/stretchr/testify/require"

	nfttypes "mods.irisnet.org/modules/nft/types"

	"github.com/bianjieai/tibc-go/modules/tibc/apps/nft_transfer/types"
	packettypes "github.com/bianjieai/tibc-go/modules/tibc/core/04-packet/types"
	routingtypes "github.com/bianjieai/tibc-go/modules/tibc/core/26-routing/types"
	tibctesting "github.com/bianjieai/tibc-go/modules/tibc/testing"
)

func TestF5B1_PacketPortIsNotAuthenticated(t *testing.T) {
	coord := tibctesting.NewCoordinator(t, 2)
	chainA := coord.GetChain(tibctesting.GetChainID(0))
	chainB := coord.GetChain(tibctesting.GetChainID(1))
	path := tibctesting.NewPath(chainA, chainB)
	coord.SetupClients(path)

	sender := chainA.SenderAccount.GetAddress().String()
	receiver := chainB.SenderAccount.GetAddress().String()

	_, err := chainA.SendMsgs(nfttypes.NewMsgIssueDenom("mobile", "mobile-name", "", sender, "", false, false, "", "", "", ""))
	require.NoError(t, err)
	_, err = chainA.SendMsgs(nfttypes.NewMsgMintNFT("xiaomi", "mobile", "", "", "", "", sender, sender))
	require.NoError(t, err)

	// the user sends the NFT through the nft-transfer module: port "NFT"
	_, err = chainA.SendMsgs(types.NewMsgNftTransfer("mobile", "xiaomi", sender, receiver, chainB.ChainName, "", ""))
	require.NoError(t, err)
	require.NoError(t, path.EndpointB.UpdateClient())

	data := types.NewNonFungibleTokenPacketData("mobile", "xiaomi", "", sender, receiver, true, "")
	genuine := packettypes.NewPacket(data.GetBytes(), 1, chainA.ChainName, chainB.ChainName, "", string(routingtypes.NFT))
	require.Equal(t,
		packettypes.CommitPacket(genuine),
		chainA.App.TIBCKeeper.PacketKeeper.GetPacketCommitment(chainA.GetContext(), chainA.ChainName, chainB.ChainName, 1),
		"the nft-transfer packet is committed on A",
	)

	// the relayer changes nothing but the port: "NFT" -> "tibcmock" (another module
	// registered in the destination chain's TIBC router)
	forged := genuine
	forged.Port = tibctesting.MockPort
	require.NotEqual(t, genuine.Port, forged.Port)

	forgedErr := path.EndpointB.RecvPacket(forged) // real MsgRecvPacket with a real proof from A

	assert.Error(t, forgedErr,
		"a packet whose port differs from the port it was sent on must be rejected by the destination chain")

	_, receipt := chainB.App.TIBCKeeper.PacketKeeper.GetPacketReceipt(chainB.GetContext(), chainA.ChainName, chainB.ChainName, 1)
	ackOnB, _ := chainB.App.TIBCKeeper.PacketKeeper.GetPacketAcknowledgement(chainB.GetContext(), chainA.ChainName, chainB.ChainName, 1)
	assert.False(t, receipt, "the forged packet must not consume the receipt of sequence 1")
	assert.NotEqual(t, packettypes.CommitAcknowledgement(tibctesting.MockAcknowledgement), ackOnB,
		"the mock module must not have processed (and acknowledged) an nft-transfer packet")

	// the genuine packet must still be deliverable and must mint the voucher for the receiver
	genuineErr := path.EndpointB.RecvPacket(genuine)
	assert.NoError(t, genuineErr, "the genuine packet (port NFT) must still be accepted")

	voucherClass := types.ParseClassTrace("nft/" + chainA.ChainName + "/" + chainB.ChainName + "/mobile").IBCClass()
	voucher, vErr := chainB.App.NftKeeper.GetNFT(chainB.GetContext(), voucherClass, "xiaomi")
	if assert.NoError(t, vErr, "the voucher %s/xiaomi must exist on the destination chain", voucherClass) {
		assert.Equal(t, receiver, voucher.GetOwner().String())
	}

	owner, err := chainA.App.NftKeeper.GetNFT(chainA.GetContext(), "mobile", "xiaomi")
	require.NoError(t, err)
	t.Logf("forged RecvPacket err=%v; genuine RecvPacket err=%v; NFT on A still owned by escrow=%v",
		forgedErr, genuineErr, owner.GetOwner().String() != sender)
}
