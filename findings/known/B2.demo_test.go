package nfttransfer_test

// Finding B2 (same root cause as B1): msgServer.Acknowledgement dispatches the
// acknowledgement to the application named by msg.Packet.Port, and the port is
// covered neither by the local packet commitment (sha256(packet.Data)) nor by the
// proven acknowledgement. Anybody can therefore hand the *error* acknowledgement of
// an nft-transfer packet to another registered module: the packet commitment is
// deleted, the nft-transfer module never sees the acknowledgement and the refund
// of the escrowed NFT is lost for good.
//
// copy into: modules/tibc/apps/nft_transfer/
// run:       go test -vet=off -count=1 -run 'TestF5B2' ./modules/tibc/apps/nft_transfer/

import (
	"testing"

	"github.com/stretchr/testify/assert"
	"github.com/stretchr/testify/require"

	sdk "github.com/cosmos/cosmos-sdk/types"

	nfttypes "mods.irisnet.org/modules/nft/types"

	"github.com/bianjieai/tibc-go/modules/tibc/apps/nft_transfer/types"
	packettypes "github.com/bianjieai/tibc-go/modules/tibc/core/04-packet/types"
	routingtypes "github.com/bianjieai/tibc-go/modules/tibc/core/26-routing/types"
	tibctesting "github.com/bianjieai/tibc-go/modules/tibc/testing"
)

type f5b2Env struct {
	chainA, chainB *tibctesting.TestChain
	path           *tibctesting.Path
	packet         packettypes.Packet
	errAck         []byte
	sender         string
}

// f5b2Setup: A sends the NFT mobile/xiaomi to B with a receiver that is not a valid
// address on B. B receives the packet and records an error acknowledgement.
func f5b2Setup(t *testing.T) f5b2Env {
	coord := tibctesting.NewCoordinator(t, 2)
	e := f5b2Env{
		chainA: coord.GetChain(tibctesting.GetChainID(0)),
		chainB: coord.GetChain(tibctesting.GetChainID(1)),
	}
	e.path = tibctesting.NewPath(e.chainA, e.chainB)
	coord.SetupClients(e.path)
	e.sender = e.chainA.SenderAccount.GetAddress().String()
	const badReceiver = "not-an-address-on-chain-b"

	_, err := e.chainA.SendMsgs(nfttypes.NewMsgIssueDenom("mobile", "mobile-name", "", e.sender, "", false, false, "", "", "", ""))
	require.NoError(t, err)
	_, err = e.chainA.SendMsgs(nfttypes.NewMsgMintNFT("xiaomi", "mobile", "", "", "", "", e.sender, e.sender))
	require.NoError(t, err)
	_, err = e.chainA.SendMsgs(types.NewMsgNftTransfer("mobile", "xiaomi", e.sender, badReceiver, e.chainB.ChainName, "", ""))
	require.NoError(t, err)
	require.NoError(t, e.path.EndpointB.UpdateClient())

	data := types.NewNonFungibleTokenPacketData("mobile", "xiaomi", "", e.sender, badReceiver, true, "")
	e.packet = packettypes.NewPacket(data.GetBytes(), 1, e.chainA.ChainName, e.chainB.ChainName, "", string(routingtypes.NFT))

	// honest delivery to B (port NFT): the nft-transfer module on B answers with an error acknowledgement
	require.NoError(t, e.path.EndpointB.RecvPacket(e.packet))
	_, addrErr := sdk.AccAddressFromBech32(badReceiver)
	require.Error(t, addrErr)
	e.errAck = packettypes.NewErrorAcknowledgement(addrErr.Error()).GetBytes()
	ackOnB, found := e.chainB.App.TIBCKeeper.PacketKeeper.GetPacketAcknowledgement(e.chainB.GetContext(), e.chainA.ChainName, e.chainB.ChainName, 1)
	require.True(t, found)
	require.Equal(t, packettypes.CommitAcknowledgement(e.errAck), ackOnB, "B recorded the error acknowledgement")

	nft, err := e.chainA.App.NftKeeper.GetNFT(e.chainA.GetContext(), "mobile", "xiaomi")
	require.NoError(t, err)
	require.NotEqual(t, e.sender, nft.GetOwner().String(), "NFT is escrowed on A")
	return e
}

func f5b2OwnerOnA(t *testing.T, e f5b2Env) string {
	nft, err := e.chainA.App.NftKeeper.GetNFT(e.chainA.GetContext(), "mobile", "xiaomi")
	require.NoError(t, err)
	return nft.GetOwner().String()
}

// Control (passes): the error acknowledgement is relayed with the genuine port and
// the nft-transfer module refunds the sender.
func TestF5B2_Control_ErrorAckRefundsTheSender(t *testing.T) {
	e := f5b2Setup(t)
	require.NoError(t, e.path.EndpointA.AcknowledgePacket(e.packet, e.errAck))
	require.Equal(t, e.sender, f5b2OwnerOnA(t, e))
}

// Demo (FAILS on the current code): the acknowledgement is relayed with a different port.
func TestF5B2_AcknowledgementPortIsNotAuthenticated(t *testing.T) {
	e := f5b2Setup(t)

	forged := e.packet
	forged.Port = tibctesting.MockPort

	forgedErr := e.path.EndpointA.AcknowledgePacket(forged, e.errAck) // real MsgAcknowledgement, real proof from B
	assert.Error(t, forgedErr,
		"an acknowledgement for a packet whose port differs from the port it was sent on must be rejected by the source chain")
	assert.True(t, e.chainA.App.TIBCKeeper.PacketKeeper.HasPacketCommitment(e.chainA.GetContext(), e.chainA.ChainName, e.chainB.ChainName, 1),
		"the forged acknowledgement must not delete the packet commitment on A")

	// the genuine acknowledgement must still be processable and must refund the sender
	genuineErr := e.path.EndpointA.AcknowledgePacket(e.packet, e.errAck)
	assert.NoError(t, genuineErr, "the genuine acknowledgement (port NFT) must still be accepted")
	t.Logf("forged MsgAcknowledgement err=%v; genuine MsgAcknowledgement err=%v", forgedErr, genuineErr)

	require.Equal(t, e.sender, f5b2OwnerOnA(t, e),
		"the sender must get the NFT back after the error acknowledgement; instead it stays in the escrow account forever")
}
