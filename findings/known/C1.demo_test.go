package tibc_test

// Finding C1: the clean point `clean/<src>/<dst>` written by CleanPacket /
// RecvCleanPacket is not part of the exported packet genesis. RecvCleanPacket
// deletes the receipts (and acknowledgements) up to the clean point, and from
// then on only the clean point protects the destination chain against a replay
// of those packets (Keeper.ValidatePacket: "sequence illegal!"). After
// ExportGenesis -> InitGenesis the clean point is gone, the receipts are gone,
// and an old RecvPacket message (old proof, old but still stored consensus
// state) is executed a second time.
//
// copy into: modules/tibc/core/
// run:       go test -vet=off -count=1 -run 'TestF5C1' ./modules/tibc/core/

import (
	"encoding/json"
	"testing"

	"github.com/stretchr/testify/assert"
	"github.com/stretchr/testify/require"

	"cosmossdk.io/log"
	abci "github.com/cometbft/cometbft/abci/types"
	cmtproto "github.com/cometbft/cometbft/proto/tendermint/types"
	dbm "github.com/cosmos/cosmos-db"
	"github.com/cosmos/cosmos-sdk/baseapp"
	sdk "github.com/cosmos/cosmos-sdk/types"

	packettypes "github.com/bianjieai/tibc-go/modules/tibc/core/04-packet/types"
	host "github.com/bianjieai/tibc-go/modules/tibc/core/24-host"
	tibctesting "github.com/bianjieai/tibc-go/modules/tibc/testing"
	"github.com/bianjieai/tibc-go/simapp"
)

// f5c1ExportImport exports the complete application state of the chain exactly
// like `simd export` does (SimApp.ExportAppStateAndValidators) and starts a brand
// new SimApp from it (InitChain + first, empty block). It returns the new app, a
// context on its committed state and the exported genesis (module name -> json).
func f5c1ExportImport(t *testing.T, chain *tibctesting.TestChain) (*simapp.SimApp, sdk.Context, map[string]json.RawMessage) {
	// every module of the app, except two that simapp itself wires incorrectly (not
	// related to TIBC): "feegrant" is named in the export order but not registered,
	// "evidence" is registered but its store key is not mounted (its export panics).
	var modules []string
	for _, name := range chain.App.ModuleManager.OrderExportGenesis {
		if _, ok := chain.App.ModuleManager.Modules[name]; ok && name != "evidence" {
			modules = append(modules, name)
		}
	}
	exported, err := chain.App.ExportAppStateAndValidators(false, nil, modules)
	require.NoError(t, err)

	var genesis map[string]json.RawMessage
	require.NoError(t, json.Unmarshal(exported.AppState, &genesis))

	fresh := simapp.NewSimApp(
		log.NewNopLogger(), dbm.NewMemDB(), nil, true,
		simapp.EmptyAppOptions{}, baseapp.SetChainID(chain.ChainID),
	)
	_, err = fresh.InitChain(&abci.RequestInitChain{
		ChainId:         chain.ChainID,
		Time:            chain.ProposedHeader.Time,
		InitialHeight:   exported.Height,
		Validators:      []abci.ValidatorUpdate{},
		ConsensusParams: simapp.DefaultConsensusParams,
		AppStateBytes:   exported.AppState,
	})
	require.NoError(t, err, "InitChain from the exported genesis")
	_, err = fresh.FinalizeBlock(&abci.RequestFinalizeBlock{
		Height:             exported.Height,
		Time:               chain.ProposedHeader.Time,
		NextValidatorsHash: chain.NextVals.Hash(),
	})
	require.NoError(t, err)
	_, err = fresh.Commit()
	require.NoError(t, err)

	ctx := fresh.BaseApp.NewUncachedContext(false, cmtproto.Header{
		ChainID: chain.ChainID,
		Height:  exported.Height + 1,
		Time:    chain.ProposedHeader.Time,
	})
	return fresh, ctx, genesis
}

// f5c1Deliver delivers msg in a real, signed transaction (next block) to the
// re-started application, signed by the chain's relayer/sender account.
func f5c1Deliver(t *testing.T, fresh *simapp.SimApp, chain *tibctesting.TestChain, msg sdk.Msg) *abci.ExecTxResult {
	res, err := simapp.SignAndDeliver(
		t, fresh.GetTxConfig(), fresh.BaseApp, []sdk.Msg{msg}, chain.ChainID,
		[]uint64{chain.SenderAccount.GetAccountNumber()},
		[]uint64{chain.SenderAccount.GetSequence()},
		true, chain.ProposedHeader.Time, chain.NextVals.Hash(), chain.SenderPrivKey,
	)
	require.NoError(t, err)
	_, err = fresh.Commit()
	require.NoError(t, err)
	require.Len(t, res.TxResults, 1)
	return res.TxResults[0]
}

func TestF5C1_CleanPointSurvivesGenesisExportImport(t *testing.T) {
	coord := tibctesting.NewCoordinator(t, 2)
	chainA := coord.GetChain(tibctesting.GetChainID(0))
	chainB := coord.GetChain(tibctesting.GetChainID(1))
	path := tibctesting.NewPath(chainA, chainB)
	coord.SetupClients(path)
	src, dst := chainA.ChainName, chainB.ChainName
	pkB := chainB.App.TIBCKeeper.PacketKeeper

	// 1. A sends packet #1 to B
	packet := packettypes.NewPacket(tibctesting.MockCommitment, 1, src, dst, "", tibctesting.MockPort)
	require.NoError(t, path.EndpointA.SendPacket(packet)) // commits on A and updates B's client of A

	// 2. the relayer delivers it to B; keep the message - it is what gets replayed later
	proof, proofHeight := chainA.QueryProof(host.PacketCommitmentKey(src, dst, 1))
	recvMsg := packettypes.NewMsgRecvPacket(packet, proof, proofHeight, chainB.SenderAccount.GetAddress())
	_, err := chainB.SendMsgs(recvMsg)
	require.NoError(t, err)
	require.True(t, pkB.HasPacketReceipt(chainB.GetContext(), src, dst, 1))
	require.NoError(t, path.EndpointA.UpdateClient())

	// 3. the acknowledgement goes back to A
	require.NoError(t, path.EndpointA.AcknowledgePacket(packet, tibctesting.MockAcknowledgement))

	// 4. A cleans up to sequence 1, the clean packet is relayed to B
	clean := packettypes.NewCleanPacket(1, src, dst, "")
	_, err = chainA.SendMsgs(packettypes.NewMsgCleanPacket(clean, chainA.SenderAccount.GetAddress()))
	require.NoError(t, err)
	require.NoError(t, path.EndpointB.UpdateClient())
	require.NoError(t, path.EndpointB.RecvCleanPacket(clean))

	require.False(t, pkB.HasPacketReceipt(chainB.GetContext(), src, dst, 1), "the clean deleted the receipt of #1 on B")
	require.Equal(t, uint64(1), sdk.BigEndianToUint64(pkB.GetCleanPacketCommitment(chainB.GetContext(), src, dst)), "clean point on B")

	// control: on the running chain B the old RecvPacket message is refused by the clean point
	_, err = chainB.SendMsgs(recvMsg)
	require.Error(t, err)
	require.Contains(t, err.Error(), "sequence illegal")

	// 5. genesis export -> import on a fresh application
	fresh, freshCtx, _ := f5c1ExportImport(t, chainB)
	pkFresh := fresh.TIBCKeeper.PacketKeeper

	assert.Equal(t, uint64(1), sdk.BigEndianToUint64(pkFresh.GetCleanPacketCommitment(freshCtx, src, dst)),
		"the clean point clean/%s/%s must survive genesis export/import", src, dst)

	// 6. replay of the very same MsgRecvPacket (same proof, same proof height) in a real tx
	res := f5c1Deliver(t, fresh, chainB, recvMsg)
	t.Logf("replayed MsgRecvPacket after export/import: code=%d log=%q", res.Code, res.Log)

	assert.NotEqual(t, uint32(0), res.Code,
		"packet #1 was received, acknowledged and cleaned before the export; replaying it after the import must be refused")

	afterCtx := fresh.BaseApp.NewUncachedContext(false, cmtproto.Header{ChainID: chainB.ChainID, Time: chainB.ProposedHeader.Time})
	_, ackAgain := pkFresh.GetPacketAcknowledgement(afterCtx, src, dst, 1)
	assert.False(t, ackAgain, "the application on B must not have processed (and acknowledged) packet #1 a second time")
}
