package nfttransfer_test

// Finding B3: Packet.RelayChain is not part of the packet commitment either, but
// Keeper.RecvPacket uses it to choose (a) whose light client verifies the proof
// and (b) whether the relay-chain branch (routing-rule whitelist) runs at all.
// For a packet committed on A as A -> (relay R) -> C a relayer can strip the relay
// chain and hand the packet straight to C, where C's client of A verifies the
// very same proof. R - and its whitelist - is bypassed.
//
// copy into: modules/tibc/apps/nft_transfer/
// run:       go test -vet=off -count=1 -run 'TestF5B3' ./modules/tibc/apps/nft_transfer/

import (
	"testing"

	"github.com/stretchr/testify/assert"
	"github.com/stretchr/testify/require"

	nfttypes "mods.irisnet.org/modules/nft/types"

	"github.com/bianjieai/tibc-go/modules/tibc/apps/nft_transfer/types"
	packettypes "github.com/bianjieai/tibc-go/modules/tibc/core/04-packet/types"
	routingtypes "github.com/bianjieai/tibc-go/modules/tibc/core/26-routing/types"
	tibctesting "github.com/bianjieai/tibc-go/modules/tibc/testing"
)

type f5b3Env struct {
	chainA, chainR, chainC *tibctesting.TestChain
	pathAR, pathRC, pathAC *tibctesting.Path
	packet                 packettypes.Packet
	voucherClass           string
}

// f5b3Setup: A, R and C are pairwise connected. The routing rules of the relay
// chain R only allow MT traffic, i.e. R refuses to forward NFT packets A -> C.
// A user on A sends the NFT mobile/xiaomi to C *through relay chain R*.
func f5b3Setup(t *testing.T) f5b3Env {
	coord := tibctesting.NewCoordinator(t, 3)
	e := f5b3Env{
		chainA: coord.GetChain(tibctesting.GetChainID(0)),
		chainR: coord.GetChain(tibctesting.GetChainID(1)),
		chainC: coord.GetChain(tibctesting.GetChainID(2)),
	}
	e.pathAR = tibctesting.NewPath(e.chainA, e.chainR)
	e.pathRC = tibctesting.NewPath(e.chainR, e.chainC)
	e.pathAC = tibctesting.NewPath(e.chainA, e.chainC)
	coord.SetupClients(e.pathAR)
	coord.SetupClients(e.pathRC)
	coord.SetupClients(e.pathAC)

	require.NoError(t, e.chainR.App.TIBCKeeper.RoutingKeeper.SetRoutingRules(e.chainR.GetContext(), []string{"*,*,MT"}))
	coord.CommitBlock(e.chainR)
	require.False(t, e.chainR.App.TIBCKeeper.RoutingKeeper.Authenticate(
		e.chainR.GetContext(), e.chainA.ChainName, e.chainC.ChainName, string(routingtypes.NFT)),
		"precondition: relay chain R does not allow NFT packets from A to C")

	sender := e.chainA.SenderAccount.GetAddress().String()
	receiver := e.chainC.SenderAccount.GetAddress().String()

	_, err := e.chainA.SendMsgs(nfttypes.NewMsgIssueDenom("mobile", "mobile-name", "", sender, "", false, false, "", "", "", ""))
	require.NoError(t, err)
	_, err = e.chainA.SendMsgs(nfttypes.NewMsgMintNFT("xiaomi", "mobile", "", "", "", "", sender, sender))
	require.NoError(t, err)

	// A -> (R) -> C
	_, err = e.chainA.SendMsgs(types.NewMsgNftTransfer("mobile", "xiaomi", sender, receiver, e.chainC.ChainName, e.chainR.ChainName, ""))
	require.NoError(t, err)

	data := types.NewNonFungibleTokenPacketData("mobile", "xiaomi", "", sender, receiver, true, "")
	e.packet = packettypes.NewPacket(data.GetBytes(), 1, e.chainA.ChainName, e.chainC.ChainName, e.chainR.ChainName, string(routingtypes.NFT))
	require.Equal(t,
		packettypes.CommitPacket(e.packet),
		e.chainA.App.TIBCKeeper.PacketKeeper.GetPacketCommitment(e.chainA.GetContext(), e.chainA.ChainName, e.chainC.ChainName, 1),
	)
	e.voucherClass = types.ParseClassTrace("nft/" + e.chainA.ChainName + "/" + e.chainC.ChainName + "/mobile").IBCClass()
	return e
}

// Control (passes): the honest route. The packet is handed to R, R's whitelist
// refuses it and records an error acknowledgement; nothing is forwarded to C.
func TestF5B3_Control_RelayChainRefusesThePacket(t *testing.T) {
	e := f5b3Setup(t)
	require.NoError(t, e.pathAR.EndpointB.UpdateClient())
	require.NoError(t, e.pathAR.EndpointB.RecvPacket(e.packet))

	ackOnR, found := e.chainR.App.TIBCKeeper.PacketKeeper.GetPacketAcknowledgement(e.chainR.GetContext(), e.chainA.ChainName, e.chainC.ChainName, 1)
	require.True(t, found)
	require.Equal(t, packettypes.CommitAcknowledgement(packettypes.NewErrorAcknowledgement("unauthorized").GetBytes()), ackOnR)
	require.False(t, e.chainR.App.TIBCKeeper.PacketKeeper.HasPacketCommitment(e.chainR.GetContext(), e.chainA.ChainName, e.chainC.ChainName, 1),
		"R did not forward the packet")
}

// Demo (FAILS on the current code): the relayer strips RelayChain and delivers the
// packet directly to C. C must reject it (the packet was committed for the route
// through R); instead C accepts it, mints the voucher and acknowledges it.
func TestF5B3_RelayChainCanBeStrippedFromCommittedPacket(t *testing.T) {
	e := f5b3Setup(t)
	receiver := e.chainC.SenderAccount.GetAddress().String()

	stripped := e.packet
	stripped.RelayChain = ""

	// C's own client of A verifies the commitment proof taken on A
	require.NoError(t, e.pathAC.EndpointB.UpdateClient())
	recvErr := e.pathAC.EndpointB.RecvPacket(stripped)

	assert.Error(t, recvErr,
		"a packet committed for the route A -> (R) -> C must not be accepted by C without having passed the relay chain R")

	_, receipt := e.chainC.App.TIBCKeeper.PacketKeeper.GetPacketReceipt(e.chainC.GetContext(), e.chainA.ChainName, e.chainC.ChainName, 1)
	assert.False(t, receipt, "C must not store a receipt for the stripped packet")

	voucher, vErr := e.chainC.App.NftKeeper.GetNFT(e.chainC.GetContext(), e.voucherClass, "xiaomi")
	if assert.Error(t, vErr, "no voucher may be minted on C for a packet the relay chain R would have refused") == false {
		t.Logf("voucher %s/xiaomi minted on C for %s (receiver=%v)", e.voucherClass, voucher.GetOwner(), voucher.GetOwner().String() == receiver)
	}

	// the relay chain never saw the packet
	_, rReceipt := e.chainR.App.TIBCKeeper.PacketKeeper.GetPacketReceipt(e.chainR.GetContext(), e.chainA.ChainName, e.chainC.ChainName, 1)
	t.Logf("stripped RecvPacket on C: err=%v; receipt on C=%v; receipt on R=%v", recvErr, receipt, rReceipt)

	// ... and the source chain accepts C's acknowledgement for the stripped packet as
	// well (proof verified by A's client of C instead of A's client of R)
	if recvErr == nil {
		okAck := packettypes.NewResultAcknowledgement([]byte{byte(1)}).GetBytes()
		ackErr := e.pathAC.EndpointA.AcknowledgePacket(stripped, okAck)
		assert.Error(t, ackErr, "A must not accept an acknowledgement that did not come back through the relay chain R")
		t.Logf("acknowledgement of the stripped packet on A: err=%v; commitment left on A=%v", ackErr,
			e.chainA.App.TIBCKeeper.PacketKeeper.HasPacketCommitment(e.chainA.GetContext(), e.chainA.ChainName, e.chainC.ChainName, 1))
	}
}
