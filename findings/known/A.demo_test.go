package nfttransfer_test

// Finding A: a relay chain that is allowed (by its routing rules) to forward a
// packet but has no light client for the destination chain fails the whole
// MsgRecvPacket instead of answering with an error acknowledgement.
//
// copy into: modules/tibc/apps/nft_transfer/
// run:       go test -vet=off -count=1 -run 'TestF5A' ./modules/tibc/apps/nft_transfer/

import (
	"testing"

	"github.com/stretchr/testify/assert"
	"github.com/stretchr/testify/require"

	nfttypes "mods.irisnet.org/modules/nft/types"

	"github.com/bianjieai/tibc-go/modules/tibc/apps/nft_transfer/types"
	packettypes "github.com/bianjieai/tibc-go/modules/tibc/core/04-packet/types"
	host "github.com/bianjieai/tibc-go/modules/tibc/core/24-host"
	routingtypes "github.com/bianjieai/tibc-go/modules/tibc/core/26-routing/types"
	tibctesting "github.com/bianjieai/tibc-go/modules/tibc/testing"
)

type f5aEnv struct {
	chainA, chainR, chainC *tibctesting.TestChain
	pathAR                 *tibctesting.Path
	packet                 packettypes.Packet
}

// f5aSetup: source chain A and relay chain R know each other; R has NO client
// for the destination chain C. A user on A escrows the NFT mobile/xiaomi and
// sends it to C through the relay chain R (packet A -> (R) -> C, sequence 1).
func f5aSetup(t *testing.T, rulesOnR []string) f5aEnv {
	coord := tibctesting.NewCoordinator(t, 3)
	e := f5aEnv{
		chainA: coord.GetChain(tibctesting.GetChainID(0)),
		chainR: coord.GetChain(tibctesting.GetChainID(1)),
		chainC: coord.GetChain(tibctesting.GetChainID(2)),
	}
	e.pathAR = tibctesting.NewPath(e.chainA, e.chainR)
	coord.SetupClients(e.pathAR)

	if rulesOnR != nil {
		require.NoError(t, e.chainR.App.TIBCKeeper.RoutingKeeper.SetRoutingRules(e.chainR.GetContext(), rulesOnR))
		coord.CommitBlock(e.chainR)
	}
	_, found := e.chainR.App.TIBCKeeper.ClientKeeper.GetClientState(e.chainR.GetContext(), e.chainC.ChainName)
	require.False(t, found, "precondition: the relay chain has no light client for the destination chain")

	sender := e.chainA.SenderAccount.GetAddress().String()
	receiver := e.chainC.SenderAccount.GetAddress().String()

	_, err := e.chainA.SendMsgs(nfttypes.NewMsgIssueDenom("mobile", "mobile-name", "", sender, "", false, false, "", "", "", ""))
	require.NoError(t, err)
	_, err = e.chainA.SendMsgs(nfttypes.NewMsgMintNFT("xiaomi", "mobile", "", "", "", "", sender, sender))
	require.NoError(t, err)

	// A -> (R) -> C
	_, err = e.chainA.SendMsgs(types.NewMsgNftTransfer("mobile", "xiaomi", sender, receiver, e.chainC.ChainName, e.chainR.ChainName, ""))
	require.NoError(t, err)

	data := types.NewNonFungibleTokenPacketData("mobile", "xiaomi", "", sender, receiver, true, "")
	e.packet = packettypes.NewPacket(data.GetBytes(), 1, e.chainA.ChainName, e.chainC.ChainName, e.chainR.ChainName, string(routingtypes.NFT))

	// the packet really is committed on A and the NFT is escrowed
	require.Equal(t,
		packettypes.CommitPacket(e.packet),
		e.chainA.App.TIBCKeeper.PacketKeeper.GetPacketCommitment(e.chainA.GetContext(), e.chainA.ChainName, e.chainC.ChainName, 1),
	)
	nft, err := e.chainA.App.NftKeeper.GetNFT(e.chainA.GetContext(), "mobile", "xiaomi")
	require.NoError(t, err)
	require.NotEqual(t, sender, nft.GetOwner().String(), "NFT is escrowed on the source chain")

	// the relay chain learns the header of A that contains the commitment
	require.NoError(t, e.pathAR.EndpointB.UpdateClient())
	return e
}

// f5aDeliverToRelay delivers the packet to the relay chain R in a real MsgRecvPacket
// (proof taken on A). It returns the error of that message, the acknowledgement
// bytes R emitted in its write_acknowledgement event (if any) and whether R stored
// an acknowledgement commitment for the packet.
func f5aDeliverToRelay(t *testing.T, e f5aEnv) (recvErr error, ackBytes []byte, ackStored bool) {
	proof, proofHeight := e.chainA.QueryProof(host.PacketCommitmentKey(e.chainA.ChainName, e.chainC.ChainName, 1))
	msg := packettypes.NewMsgRecvPacket(e.packet, proof, proofHeight, e.chainR.SenderAccount.GetAddress())
	res, recvErr := e.chainR.SendMsgs(msg)
	if res != nil {
		for _, ev := range res.Events {
			if ev.Type != packettypes.EventTypeWriteAck {
				continue
			}
			for _, attr := range ev.Attributes {
				if attr.Key == packettypes.AttributeKeyAck {
					ackBytes = []byte(attr.Value)
				}
			}
		}
	}
	// A learns the new state of R so that an acknowledgement can be proven to it
	require.NoError(t, e.pathAR.EndpointA.UpdateClient())

	ackOnRelay, ackStored := e.chainR.App.TIBCKeeper.PacketKeeper.GetPacketAcknowledgement(
		e.chainR.GetContext(), e.chainA.ChainName, e.chainC.ChainName, 1,
	)
	if ackStored {
		require.Equal(t, packettypes.CommitAcknowledgement(ackBytes), ackOnRelay, "ack bytes taken from the event match the stored commitment")
	}
	return recvErr, ackBytes, ackStored
}

func f5aOwnerOnA(t *testing.T, e f5aEnv) string {
	nft, err := e.chainA.App.NftKeeper.GetNFT(e.chainA.GetContext(), "mobile", "xiaomi")
	require.NoError(t, err)
	return nft.GetOwner().String()
}

// Control (passes): the relay chain's routing rules do NOT allow the packet.
// R records an error acknowledgement, it is relayed to A and the sender is refunded.
func TestF5A_Control_UnauthorisedPacketIsRefunded(t *testing.T) {
	e := f5aSetup(t, nil) // no routing rules at all -> Authenticate == false
	sender := e.chainA.SenderAccount.GetAddress().String()

	recvErr, errAck, ackStored := f5aDeliverToRelay(t, e)
	require.NoError(t, recvErr)
	require.True(t, ackStored)
	require.Equal(t, packettypes.NewErrorAcknowledgement("unauthorized").GetBytes(), errAck)

	require.NoError(t, e.pathAR.EndpointA.AcknowledgePacket(e.packet, errAck))
	require.Equal(t, sender, f5aOwnerOnA(t, e), "sender refunded after the relay chain's error acknowledgement")
}

// Demo (FAILS on the current code): the relay chain's routing rules allow the
// packet, but R cannot forward it because it has no client for the destination.
// Expected: same treatment as every other refusal on the relay chain - an error
// acknowledgement that lets the source chain refund the sender.
func TestF5A_RelayChainWithoutDestClientMustWriteErrorAck(t *testing.T) {
	e := f5aSetup(t, []string{"testchain0,*,NFT"}) // R's whitelist lets A send NFTs anywhere
	sender := e.chainA.SenderAccount.GetAddress().String()

	require.True(t, e.chainR.App.TIBCKeeper.RoutingKeeper.Authenticate(
		e.chainR.GetContext(), e.chainA.ChainName, e.chainC.ChainName, string(routingtypes.NFT)),
		"precondition: the routing rules of R allow the packet")

	recvErr, errAck, ackStored := f5aDeliverToRelay(t, e)

	assert.NoError(t, recvErr,
		"MsgRecvPacket on the relay chain must not fail: a packet the relay chain cannot forward has to be answered with an error acknowledgement")
	assert.True(t, ackStored, "relay chain must record an (error) acknowledgement for the packet it refuses to forward")
	_, receipt := e.chainR.App.TIBCKeeper.PacketKeeper.GetPacketReceipt(e.chainR.GetContext(), e.chainA.ChainName, e.chainC.ChainName, 1)
	t.Logf("on relay chain after MsgRecvPacket: err=%v, receipt stored=%v, ack stored=%v", recvErr, receipt, ackStored)

	if ackStored {
		// relay the acknowledgement that R wrote back to the source chain
		var ack packettypes.Acknowledgement
		require.NoError(t, ack.Unmarshal(errAck))
		_, isErr := ack.Response.(*packettypes.Acknowledgement_Error)
		assert.True(t, isErr, "R must answer with an *error* acknowledgement")
		require.NoError(t, e.pathAR.EndpointA.AcknowledgePacket(e.packet, errAck))
	}

	require.Equal(t, sender, f5aOwnerOnA(t, e),
		"the sender's NFT must be refunded; instead it stays in the escrow account of the source chain and nothing can ever travel back")
}
