package tibc_test

// Finding C2: `maxAckSeq/<src>/<dst>` (highest acknowledged sequence, written by
// AcknowledgePacket on the source chain and by WriteAcknowledgement on the
// destination chain) is not part of the exported packet genesis.
// Keeper.ValidateCleanPacket refuses every clean request whose sequence is larger
// than maxAckSeq, so after ExportGenesis -> InitGenesis every clean request for
// already acknowledged packets is refused ("sequence illegal!") until a new,
// higher acknowledgement arrives.
//
// copy into: modules/tibc/core/
// run:       go test -vet=off -count=1 -run 'TestF5C2' ./modules/tibc/core/

import (
	"encoding/json"
	"testing"

	"github.com/stretchr/testify/assert"
	"github.com/stretchr/testify/require"

	"cosmossdk.io/log"
	abci "github.com/cometbft/cometbft/abci/types"
	cmtproto "github.com/cometbft/cometbft/proto/tendermint/types"
	dbm "github.com/cosmos/cosmos-db"
	"github.com/cosmos/cosmos-sdk/baseapp"
	sdk "github.com/cosmos/cosmos-sdk/types"

	packettypes "github.com/bianjieai/tibc-go/modules/tibc/core/04-packet/types"
	host "github.com/bianjieai/tibc-go/modules/tibc/core/24-host"
	tibckeeper "github.com/bianjieai/tibc-go/modules/tibc/core/keeper"
	tibctesting "github.com/bianjieai/tibc-go/modules/tibc/testing"
	"github.com/bianjieai/tibc-go/simapp"
)

// f5c2ExportImport exports the complete application state of the chain exactly
// like `simd export` does (SimApp.ExportAppStateAndValidators) and starts a brand
// new SimApp from it (InitChain + first, empty block). It returns the new app, a
// context on its committed state and the exported genesis (module name -> json).
func f5c2ExportImport(t *testing.T, chain *tibctesting.TestChain) (*simapp.SimApp, sdk.Context, map[string]json.RawMessage) {
	// every module of the app, except two that simapp itself wires incorrectly (not
	// related to TIBC): "feegrant" is named in the export order but not registered,
	// "evidence" is registered but its store key is not mounted (its export panics).
	var modules []string
	for _, name := range chain.App.ModuleManager.OrderExportGenesis {
		if _, ok := chain.App.ModuleManager.Modules[name]; ok && name != "evidence" {
			modules = append(modules, name)
		}
	}
	exported, err := chain.App.ExportAppStateAndValidators(false, nil, modules)
	require.NoError(t, err)

	var genesis map[string]json.RawMessage
	require.NoError(t, json.Unmarshal(exported.AppState, &genesis))

	fresh := simapp.NewSimApp(
		log.NewNopLogger(), dbm.NewMemDB(), nil, true,
		simapp.EmptyAppOptions{}, baseapp.SetChainID(chain.ChainID),
	)
	_, err = fresh.InitChain(&abci.RequestInitChain{
		ChainId:         chain.ChainID,
		Time:            chain.ProposedHeader.Time,
		InitialHeight:   exported.Height,
		Validators:      []abci.ValidatorUpdate{},
		ConsensusParams: simapp.DefaultConsensusParams,
		AppStateBytes:   exported.AppState,
	})
	require.NoError(t, err, "InitChain from the exported genesis")
	_, err = fresh.FinalizeBlock(&abci.RequestFinalizeBlock{
		Height:             exported.Height,
		Time:               chain.ProposedHeader.Time,
		NextValidatorsHash: chain.NextVals.Hash(),
	})
	require.NoError(t, err)
	_, err = fresh.Commit()
	require.NoError(t, err)

	ctx := fresh.BaseApp.NewUncachedContext(false, cmtproto.Header{
		ChainID: chain.ChainID,
		Height:  exported.Height + 1,
		Time:    chain.ProposedHeader.Time,
	})
	return fresh, ctx, genesis
}

func TestF5C2_MaxAckSeqSurvivesGenesisExportImport(t *testing.T) {
	coord := tibctesting.NewCoordinator(t, 2)
	chainA := coord.GetChain(tibctesting.GetChainID(0))
	chainB := coord.GetChain(tibctesting.GetChainID(1))
	path := tibctesting.NewPath(chainA, chainB)
	coord.SetupClients(path)
	src, dst := chainA.ChainName, chainB.ChainName

	// packets #1 and #2 from A to B, both received on B and acknowledged on A
	for seq := uint64(1); seq <= 2; seq++ {
		packet := packettypes.NewPacket(tibctesting.MockCommitment, seq, src, dst, "", tibctesting.MockPort)
		require.NoError(t, path.EndpointA.SendPacket(packet))
		require.NoError(t, path.RelayPacket(packet, tibctesting.MockAcknowledgement))
	}
	require.Equal(t, uint64(2), chainA.App.TIBCKeeper.PacketKeeper.GetMaxAckSequence(chainA.GetContext(), src, dst))
	require.Equal(t, uint64(2), chainB.App.TIBCKeeper.PacketKeeper.GetMaxAckSequence(chainB.GetContext(), src, dst))
	require.False(t, chainA.App.TIBCKeeper.PacketKeeper.HasPacketCommitment(chainA.GetContext(), src, dst, 1))
	require.False(t, chainA.App.TIBCKeeper.PacketKeeper.HasPacketCommitment(chainA.GetContext(), src, dst, 2))

	cleanMsg := packettypes.NewMsgCleanPacket(packettypes.NewCleanPacket(2, src, dst, ""), chainA.SenderAccount.GetAddress())

	// control: on the running chain A the clean request is accepted (throw-away cache context)
	cacheCtx, _ := chainA.GetContext().CacheContext()
	_, err := tibckeeper.NewMsgServerImpl(*chainA.App.TIBCKeeper).CleanPacket(cacheCtx, cleanMsg)
	require.NoError(t, err, "control: before the export A may clean up to the acknowledged sequence 2")

	// genesis export -> import on a fresh application (source chain A)
	freshA, freshCtxA, _ := f5c2ExportImport(t, chainA)
	assert.Equal(t, uint64(2), freshA.TIBCKeeper.PacketKeeper.GetMaxAckSequence(freshCtxA, src, dst),
		"maxAckSeq/%s/%s must survive genesis export/import on the source chain", src, dst)

	_, err = tibckeeper.NewMsgServerImpl(*freshA.TIBCKeeper).CleanPacket(freshCtxA, cleanMsg)
	assert.NoError(t, err, "after export/import A must still be able to clean the packets that were acknowledged before the export")

	// the same on the destination chain B: a clean packet committed by A is refused after B's export/import
	_, err = chainA.SendMsgs(cleanMsg)
	require.NoError(t, err)
	require.NoError(t, path.EndpointB.UpdateClient())
	clean := cleanMsg.CleanPacket
	proof, proofHeight := chainA.QueryProof(host.CleanPacketCommitmentKey(src, dst))
	recvCleanMsg := packettypes.NewMsgRecvCleanPacket(clean, proof, proofHeight, chainB.SenderAccount.GetAddress())

	cacheCtxB, _ := chainB.GetContext().CacheContext()
	_, err = tibckeeper.NewMsgServerImpl(*chainB.App.TIBCKeeper).RecvCleanPacket(cacheCtxB, recvCleanMsg)
	require.NoError(t, err, "control: the running chain B accepts the clean packet")

	freshB, freshCtxB, _ := f5c2ExportImport(t, chainB)
	assert.Equal(t, uint64(2), freshB.TIBCKeeper.PacketKeeper.GetMaxAckSequence(freshCtxB, src, dst),
		"maxAckSeq/%s/%s must survive genesis export/import on the destination chain", src, dst)
	_, err = tibckeeper.NewMsgServerImpl(*freshB.TIBCKeeper).RecvCleanPacket(freshCtxB, recvCleanMsg)
	assert.NoError(t, err, "after export/import B must still accept the clean packet for packets it acknowledged before the export")
}
