package nfttransfer_test

// Finding C3: the nft-transfer and mt-transfer modules keep the voucher class
// traces (hash -> "nft/<A>/<B>/<class>") in their own KV store (prefix 0x01) but
// implement neither InitGenesis nor ExportGenesis. After a genesis export/import
// the voucher NFT/MT itself survives (the nft / mt modules export it), but it can
// no longer be sent back: "class trace not found".
//
// copy into: modules/tibc/apps/nft_transfer/
// run:       go test -vet=off -count=1 -run 'TestF5C3' ./modules/tibc/apps/nft_transfer/

import (
	"encoding/json"
	"testing"

	"github.com/stretchr/testify/assert"
	"github.com/stretchr/testify/require"

	"cosmossdk.io/log"
	abci "github.com/cometbft/cometbft/abci/types"
	cmtproto "github.com/cometbft/cometbft/proto/tendermint/types"
	dbm "github.com/cosmos/cosmos-db"
	"github.com/cosmos/cosmos-sdk/baseapp"
	sdk "github.com/cosmos/cosmos-sdk/types"

	mttypes "mods.irisnet.org/modules/mt/types"
	nfttypes "mods.irisnet.org/modules/nft/types"

	mttransfertypes "github.com/bianjieai/tibc-go/modules/tibc/apps/mt_transfer/types"
	"github.com/bianjieai/tibc-go/modules/tibc/apps/nft_transfer/types"
	packettypes "github.com/bianjieai/tibc-go/modules/tibc/core/04-packet/types"
	routingtypes "github.com/bianjieai/tibc-go/modules/tibc/core/26-routing/types"
	tibctesting "github.com/bianjieai/tibc-go/modules/tibc/testing"
	"github.com/bianjieai/tibc-go/simapp"
)

// f5c3ExportImport exports the complete application state of the chain exactly
// like `simd export` does (SimApp.ExportAppStateAndValidators) and starts a brand
// new SimApp from it (InitChain + first block). It returns the new app, a context
// on its committed state and the exported genesis (module name -> json).
func f5c3ExportImport(t *testing.T, chain *tibctesting.TestChain) (*simapp.SimApp, sdk.Context, map[string]json.RawMessage) {
	// every module of the app, except two that simapp itself wires incorrectly (not
	// related to TIBC): "feegrant" is named in the export order but not registered,
	// "evidence" is registered but its store key is not mounted (its export panics).
	var modules []string
	for _, name := range chain.App.ModuleManager.OrderExportGenesis {
		if _, ok := chain.App.ModuleManager.Modules[name]; ok && name != "evidence" {
			modules = append(modules, name)
		}
	}
	exported, err := chain.App.ExportAppStateAndValidators(false, nil, modules)
	require.NoError(t, err)

	var genesis map[string]json.RawMessage
	require.NoError(t, json.Unmarshal(exported.AppState, &genesis))

	fresh := simapp.NewSimApp(
		log.NewNopLogger(), dbm.NewMemDB(), nil, true,
		simapp.EmptyAppOptions{}, baseapp.SetChainID(chain.ChainID),
	)
	_, err = fresh.InitChain(&abci.RequestInitChain{
		ChainId:         chain.ChainID,
		Time:            chain.ProposedHeader.Time,
		InitialHeight:   exported.Height,
		Validators:      []abci.ValidatorUpdate{},
		ConsensusParams: simapp.DefaultConsensusParams,
		AppStateBytes:   exported.AppState,
	})
	require.NoError(t, err, "InitChain from the exported genesis")
	_, err = fresh.FinalizeBlock(&abci.RequestFinalizeBlock{
		Height:             exported.Height,
		Time:               chain.ProposedHeader.Time,
		NextValidatorsHash: chain.NextVals.Hash(),
	})
	require.NoError(t, err)
	_, err = fresh.Commit()
	require.NoError(t, err)

	ctx := fresh.BaseApp.NewUncachedContext(false, cmtproto.Header{
		ChainID: chain.ChainID,
		Height:  exported.Height + 1,
		Time:    chain.ProposedHeader.Time,
	})
	return fresh, ctx, genesis
}

func TestF5C3_NftVoucherCanBeSentBackAfterGenesisExportImport(t *testing.T) {
	coord := tibctesting.NewCoordinator(t, 2)
	chainA := coord.GetChain(tibctesting.GetChainID(0))
	chainB := coord.GetChain(tibctesting.GetChainID(1))
	path := tibctesting.NewPath(chainA, chainB)
	coord.SetupClients(path)

	userA := chainA.SenderAccount.GetAddress().String()
	userB := chainB.SenderAccount.GetAddress().String()

	_, err := chainA.SendMsgs(nfttypes.NewMsgIssueDenom("mobile", "mobile-name", "", userA, "", false, false, "", "", "", ""))
	require.NoError(t, err)
	_, err = chainA.SendMsgs(nfttypes.NewMsgMintNFT("xiaomi", "mobile", "", "", "", "", userA, userA))
	require.NoError(t, err)

	// A -> B, completely relayed (recv on B, ack on A)
	_, err = chainA.SendMsgs(types.NewMsgNftTransfer("mobile", "xiaomi", userA, userB, chainB.ChainName, "", ""))
	require.NoError(t, err)
	data := types.NewNonFungibleTokenPacketData("mobile", "xiaomi", "", userA, userB, true, "")
	packet := packettypes.NewPacket(data.GetBytes(), 1, chainA.ChainName, chainB.ChainName, "", string(routingtypes.NFT))
	require.NoError(t, path.RelayPacket(packet, packettypes.NewResultAcknowledgement([]byte{byte(1)}).GetBytes()))

	voucherClass := types.ParseClassTrace("nft/" + chainA.ChainName + "/" + chainB.ChainName + "/mobile").IBCClass()
	voucher, err := chainB.App.NftKeeper.GetNFT(chainB.GetContext(), voucherClass, "xiaomi")
	require.NoError(t, err)
	require.Equal(t, userB, voucher.GetOwner().String())

	sendBack := types.NewMsgNftTransfer(voucherClass, "xiaomi", userB, userA, chainA.ChainName, "", "")

	// control: on the running chain B the voucher can be sent back (throw-away cache context)
	cacheCtx, _ := chainB.GetContext().CacheContext()
	_, err = chainB.App.NftTransferKeeper.NftTransfer(cacheCtx, sendBack)
	require.NoError(t, err, "control: before the export the voucher can be sent back to its origin")

	// genesis export -> import on a fresh application
	fresh, freshCtx, genesis := f5c3ExportImport(t, chainB)

	// the voucher itself survived ...
	voucher, err = fresh.NftKeeper.GetNFT(freshCtx, voucherClass, "xiaomi")
	require.NoError(t, err, "the nft module exported/imported the voucher NFT")
	require.Equal(t, userB, voucher.GetOwner().String())

	// ... but its class trace did not
	_, hasGenesis := genesis[types.ModuleName]
	assert.True(t, hasGenesis, "the exported genesis must contain a section for the nft-transfer module (%q)", types.ModuleName)

	path0, traceErr := fresh.NftTransferKeeper.ClassPathFromHash(freshCtx, voucherClass)
	assert.NoError(t, traceErr, "class trace of %s must survive export/import", voucherClass)
	assert.Equal(t, "nft/"+chainA.ChainName+"/"+chainB.ChainName+"/mobile", path0)

	_, err = fresh.NftTransferKeeper.NftTransfer(freshCtx, sendBack)
	require.NoError(t, err, "after genesis export/import the owner must still be able to send the voucher back to its origin chain")
}

func TestF5C3_MtVoucherCanBeSentBackAfterGenesisExportImport(t *testing.T) {
	const (
		classID = "c02a799c8fee067a7f9b944554d8431ee539847234441833e45a3a2d3123fd99" // first denom issued on a chain
		mtID    = "ff6e57b41cb52ae7d58d854b2123da2c5657fd15d525821a13fe7da1b9cebd80" // first mt minted on a chain
	)
	coord := tibctesting.NewCoordinator(t, 2)
	chainA := coord.GetChain(tibctesting.GetChainID(0))
	chainB := coord.GetChain(tibctesting.GetChainID(1))
	path := tibctesting.NewPath(chainA, chainB)
	coord.SetupClients(path)

	userA := chainA.SenderAccount.GetAddress().String()
	userB := chainB.SenderAccount.GetAddress().String()

	_, err := chainA.SendMsgs(mttypes.NewMsgIssueDenom("mobile-name", "", userA))
	require.NoError(t, err)
	_, err = chainA.SendMsgs(mttypes.NewMsgMintMT("", classID, 2, "", userA, userA))
	require.NoError(t, err)

	_, err = chainA.SendMsgs(mttransfertypes.NewMsgMtTransfer(classID, mtID, userA, userB, chainB.ChainName, "", "", 1))
	require.NoError(t, err)
	data := mttransfertypes.NewMultiTokenPacketData(classID, mtID, userA, userB, true, "", 1, []byte(""))
	packet := packettypes.NewPacket(data.GetBytes(), 1, chainA.ChainName, chainB.ChainName, "", string(routingtypes.MT))
	require.NoError(t, path.RelayPacket(packet, packettypes.NewResultAcknowledgement([]byte{byte(1)}).GetBytes()))

	voucherClass := mttransfertypes.ParseClassTrace("mt/" + chainA.ChainName + "/" + chainB.ChainName + "/" + classID).IBCClass()
	require.Equal(t, uint64(1), chainB.App.MtKeeper.GetBalance(chainB.GetContext(), voucherClass, mtID, chainB.SenderAccount.GetAddress()))

	sendBack := mttransfertypes.NewMsgMtTransfer(voucherClass, mtID, userB, userA, chainA.ChainName, "", "", 1)

	cacheCtx, _ := chainB.GetContext().CacheContext()
	_, err = chainB.App.MtTransferKeeper.MtTransfer(cacheCtx, sendBack)
	require.NoError(t, err, "control: before the export the voucher can be sent back to its origin")

	fresh, freshCtx, genesis := f5c3ExportImport(t, chainB)
	require.Equal(t, uint64(1), fresh.MtKeeper.GetBalance(freshCtx, voucherClass, mtID, chainB.SenderAccount.GetAddress()),
		"the mt module exported/imported the voucher balance")

	_, hasGenesis := genesis[mttransfertypes.ModuleName]
	assert.True(t, hasGenesis, "the exported genesis must contain a section for the mt-transfer module (%q)", mttransfertypes.ModuleName)

	_, err = fresh.MtTransferKeeper.MtTransfer(freshCtx, sendBack)
	require.NoError(t, err, "after genesis export/import the owner must still be able to send the MT voucher back to its origin chain")
}
