#!/bin/sh
# usage: variants_run.sh <worktree-name> <out-file> <patch>...  - applies each patch to a scratch worktree of /repo HEAD, runs all rules (tibcvet matrix)
WT=/tmp/$1; OUT=$2; shift; shift
export TIBCVET_TRIMPATH=1   # share the build cache between scratch worktrees
git -C /repo worktree remove --force $WT >/dev/null 2>&1
git -C /repo worktree add --detach $WT HEAD >/dev/null 2>&1 || exit 3
: > "$OUT"
for P in "$@"; do
  name=$(echo "$P" | sed 's#^/tmp/##; s#/out/#-#; s#\.patch\.diff$##; s#/#-#g')
  git -C $WT checkout -q -- . ; git -C $WT clean -fdq
  if ! git -C $WT apply "$P" 2>/dev/null; then echo "$name DOES-NOT-APPLY" >> "$OUT"; continue; fi
  /verif/tool/bin/tibcvet matrix $WT | grep -v " ok " | sed "s#^#$name: #" >> "$OUT"
  echo "$name done" >> "$OUT"
done
git -C /repo worktree remove --force $WT >/dev/null 2>&1
