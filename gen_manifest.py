#!/usr/bin/env python3
"""Regenerates /verif/MANIFEST.json from the table below and from the list of
properties for which tool/ registers rules (`tibcvet list`). Run after adding rules."""
import json, subprocess, os, sys

VERIF = os.path.dirname(os.path.abspath(__file__))

# per property: (technique, what the static check decides, what it does not, design section)
P = {
 "C01": ("SSA edge-dominance + argument-binding + must-pass-through (go/ssa, custom checker)",
         "every write/event/success in Keeper.RecvPacket is dominated by the nil-error edges of ValidatePacket and ClientState.VerifyPacketCommitment; verifier arguments are bound to the packet's own src/dst/seq, CommitPacket(packet), submitted proof/height and the client+store of the source-or-relay chain; CommitPacket hashes the whole data; msgServer.RecvPacket runs callback/ack only after keeper success; all three light clients reach success only via height bound, consensus state at proof height, delay check and a membership call bound to the protocol key and claimed value; chained ICS-23 verification compares roots and checks every membership result",
         "cryptographic soundness of ICS-23/MPT, SDK rollback of rejected messages, multi-chain histories"),
}

DEFAULT_NOTE = ("Trusted: go/types + golang.org/x/tools/go/ssa v0.29.0, go/packages load of /repo's working tree, "
                "cosmos-sdk store branching, third-party verification libraries (ics23, cometbft light, go-ethereum trie). "
                "Decides structural necessary conditions on every path of the source; does not execute tibc-go.")

NA_REASON = {}

def main():
    ids = [json.loads(l)["id"] for l in open(os.path.join(VERIF, "properties.jsonl"))]
    try:
        out = subprocess.run([os.path.join(VERIF, "tool/bin/tibcvet"), "list"], capture_output=True, text=True, check=True).stdout.split()
    except Exception as e:
        print("cannot list rules:", e, file=sys.stderr); sys.exit(1)
    impl = [i for i in ids if i in out and i in P]
    checks = []
    for i in impl:
        tech, decides, notdec = P[i]
        checks.append({
            "property_id": i,
            "quick_cmd": f"./check {i} quick",
            "thorough_cmd": f"./check {i} thorough",
            "evidence_file": f"/verif/evidence/{i}.json",
            "replay_cmd_template": "cat {path}",
            "engine": "tibcvet",
            "level_claimed": {
                "category": "other",
                "text": f"Static analysis (no execution) of the type-checked SSA of /repo's current tree. Decides, for all paths and inputs at once, these structural necessary conditions of the property: {decides}. It does NOT decide: {notdec}. A violated or undecidable obligation is reported with file:line, function and rule.",
                "design_ref": f"DESIGN.md §4 {i}",
            },
            "level_note": DEFAULT_NOTE,
            "technique": tech,
        })
    na = []
    for i in ids:
        if i not in impl:
            na.append({"property_id": i, "reason": NA_REASON.get(i, "static rules for this property are not built yet in this revision; see DESIGN.md §4 for the planned structural clauses")})
    m = {
        "version": 1,
        "setup_cmd": "sh ./setup.sh",
        "hooks": {
            "guard": "verif",
            "enable": "none needed: the checks analyse source statically and never build or run /repo with hooks; no guarded source was added to /repo",
            "baseline_off_cmd": json.load(open("/root/.vp/BASELINE.json"))["cmd"],
            "source_commits": [],
            "add_only": True,
        },
        "engines": [{
            "name": "tibcvet",
            "path": "/verif/tool",
            "serves_properties": impl,
            "kind_free_text": "repository-specific static analyser over go/packages + go/ssa: canonical value terms, if-edge dominance facts, must-pass-through, inter-procedural success summaries, KV key-shape evaluation, CHA call graph",
        }],
        "checks": checks,
        "not_applicable": na,
        "notes": "All checks are static analyses of /repo's working tree (technique family: static analysis). Exit 0 held / 1 VIOLATION / 2 checker broken. Known findings: /verif/known_findings.txt.",
    }
    json.dump(m, open(os.path.join(VERIF, "MANIFEST.json"), "w"), indent=1)
    print("claimed:", impl, "not_applicable:", [x["property_id"] for x in na])

main()
