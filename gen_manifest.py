#!/usr/bin/env python3
"""Regenerates /verif/MANIFEST.json from the rules registered in tool/ (`tibcvet list -json`
gives, per property, the statement of what the static rules decide and do not decide).
Run after adding rules:  python3 gen_manifest.py"""
import json, subprocess, os, sys

VERIF = os.path.dirname(os.path.abspath(__file__))

TECH = {
 "default": "custom static analyser over go/packages + go/ssa: if-edge dominance facts, canonical value terms (argument binding), must-pass-through on the CFG, inter-procedural success summaries, KV key-shape evaluation, call-graph who-may-write",
}

DEFAULT_NOTE = ("Trusted: go/types + golang.org/x/tools/go/ssa v0.29.0, go/packages load of /repo's working tree, "
                "cosmos-sdk store branching, third-party verification libraries (ics23, cometbft light, go-ethereum trie/ethash). "
                "Decides structural necessary conditions on every path of the source; does not execute tibc-go; "
                "unrecognised idioms fail closed (reported as a violated obligation naming the construct).")

# properties deliberately not claimed, with the reason (kept current by hand)
NA_REASON = {}

def main():
    ids = [json.loads(l)["id"] for l in open(os.path.join(VERIF, "properties.jsonl"))]
    env = dict(os.environ, GOFLAGS="-mod=mod", GOPROXY="off", GOSUMDB="off", GOTOOLCHAIN="local")
    try:
        out = subprocess.run([os.path.join(VERIF, "tool/bin/tibcvet"), "list", "-json"], capture_output=True, text=True, check=True, env=env).stdout
        expl = json.loads(out)
    except Exception as e:
        print("cannot list rules:", e, file=sys.stderr); sys.exit(1)
    impl = [i for i in ids if i in expl and i not in NA_REASON]
    checks = []
    for i in impl:
        checks.append({
            "property_id": i,
            "quick_cmd": f"./check {i} quick",
            "thorough_cmd": f"./check {i} thorough",
            "evidence_file": f"/verif/evidence/{i}.json",
            "replay_cmd_template": "cat {path}",
            "engine": "tibcvet",
            "level_claimed": {
                "category": "other",
                "text": "Static analysis (no execution) of the type-checked SSA of /repo's current tree; a verdict holds for all paths and inputs of the analysed functions at once, but only for the structural necessary conditions named here, not for the behaviour as a whole. " + expl[i] + " Every violated or undecidable obligation is reported with file:line, function and rule.",
                "design_ref": f"DESIGN.md §4 {i}",
            },
            "level_note": DEFAULT_NOTE,
            "technique": TECH.get(i, TECH["default"]),
        })
    na = []
    for i in ids:
        if i not in impl:
            na.append({"property_id": i, "reason": NA_REASON.get(i, "static rules for this property are not built yet in this revision; see DESIGN.md §4 for the planned structural clauses")})
    m = {
        "version": 1,
        "setup_cmd": "sh ./setup.sh",
        "hooks": {
            "guard": "verif",
            "enable": "none needed: the checks analyse source statically and never build or run /repo with hooks; no guarded source was added to /repo",
            "baseline_off_cmd": json.load(open("/root/.vp/BASELINE.json"))["cmd"],
            "source_commits": [],
            "add_only": True,
        },
        "engines": [{
            "name": "tibcvet",
            "path": "/verif/tool",
            "serves_properties": impl,
            "kind_free_text": "repository-specific static analyser over go/packages + go/ssa: canonical value terms, if-edge dominance facts, must-pass-through, inter-procedural success summaries, KV key-shape evaluation, CHA call graph, error-propagation analysis",
        }],
        "checks": checks,
        "not_applicable": na,
        "notes": "All checks are static analyses of /repo's working tree (technique family: static analysis). Exit 0 held / 1 VIOLATION / 2 checker broken. Known findings: /verif/known_findings.txt. Seeded changes used to test the checks: /verif/seeded/.",
    }
    json.dump(m, open(os.path.join(VERIF, "MANIFEST.json"), "w"), indent=1)
    print("claimed:", impl, "not_applicable:", [x["property_id"] for x in na])

main()
